#!/bin/bash
# setup_cmd: run once after a fresh restore, offline. Warms the Go build cache
# (plain and -race) by building the harness against /repo's working tree and
# runs the oracle self-tests. Builds nothing that the checks rely on later:
# every check rebuilds from /repo itself.
set -u
cd "$(dirname "$0")"
. ./lib.sh
mkwork
stage_legacy && write_gomod || { echo "setup: staging failed"; exit 1; }
build_harness "$WORK/bin/jpverif" || { echo "setup: harness build failed"; exit 1; }
build_harness "$WORK/bin/jpverif-race" -race || { echo "setup: race build failed"; exit 1; }
build_cli || { echo "setup: cli build failed"; exit 1; }
"$WORK/bin/jpverif" selftest || exit 1
mkdir -p evidence replays
echo "setup ok"
