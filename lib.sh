# Sourced by check.sh / setup.sh. Builds everything from /repo's current working tree.
# Nothing is written into /repo; scratch lives in a fresh mktemp dir under /var/tmp and is removed on exit.

export GOFLAGS=-mod=mod GOPROXY=off GOSUMDB=off GOTOOLCHAIN=local
export CARGO_NET_OFFLINE=true PIP_NO_INDEX=1

VERIF_DIR="$(cd "$(dirname "${BASH_SOURCE[0]}")" && pwd)"
REPO_DIR="${VERIF_REPO:-/repo}"
HARNESS_DIR="$VERIF_DIR/harness"

mkwork() {
  WORK="$(mktemp -d /var/tmp/jpverif.XXXXXX)"
  export WORK
  trap 'rm -rf "$WORK"' EXIT
  mkdir -p "$WORK/bin" "$WORK/legacy" "$WORK/run"
}

# Stage the legacy root package (it has no go.mod of its own) into $WORK/legacy.
stage_legacy() {
  local f
  for f in "$REPO_DIR"/*.go; do
    case "$f" in *_test.go) continue ;; esac
    cp "$f" "$WORK/legacy/"
  done
  mkdir -p "$WORK/legacy/cmd/json-patch"
  cp "$REPO_DIR"/cmd/json-patch/*.go "$WORK/legacy/cmd/json-patch/"
  cat > "$WORK/legacy/go.mod" <<EOF
module github.com/evanphx/json-patch

go 1.18

require github.com/jessevdk/go-flags v1.6.1

require golang.org/x/sys v0.21.0 // indirect
EOF
  cp "$REPO_DIR/v5/go.sum" "$WORK/legacy/go.sum"
}

write_gomod() {
  sed -e "s#@REPO@#$REPO_DIR#g" -e "s#@LEGACY@#$WORK/legacy#g" "$HARNESS_DIR/go.mod.tmpl" > "$WORK/go.mod"
  cp "$REPO_DIR/v5/go.sum" "$WORK/go.sum"
}

# build_harness <out> [extra go build flags...]
build_harness() {
  local out="$1"; shift
  (cd "$HARNESS_DIR" && go build -modfile="$WORK/go.mod" -tags verif "$@" -o "$out" ./cmd/jpverif)
}

# build the two command-line programs (no hooks: the shipped binary)
build_cli() {
  (cd "$HARNESS_DIR" && go build -modfile="$WORK/go.mod" -o "$WORK/bin/json-patch-v5" github.com/evanphx/json-patch/v5/cmd/json-patch) || return 1
  (cd "$WORK/legacy" && go build -o "$WORK/bin/json-patch-legacy" ./cmd/json-patch) || return 1
}
