package props

import (
	"fmt"
	"math/big"
	"strconv"

	jpl "github.com/evanphx/json-patch"
	"github.com/evanphx/json-patch/v5/verifharness/core"
	"github.com/evanphx/json-patch/v5/verifharness/gen"
	jr "github.com/evanphx/json-patch/v5/verifharness/jsonref"
	ref "github.com/evanphx/json-patch/v5/verifharness/ref6902"
	"github.com/evanphx/json-patch/v5/verifharness/ref7396"
)

// judgeLegacyApply compares the legacy package's Apply with the reference in the v4 dialect.
var hugeIdxToks18 = []string{"4294967296", "4294967297", "9223372036854775807", "9223372036854775808", "18446744073709551615", "18446744073709551616", "18446744073709551617", "18446744073709551618",
	"36893488147419103232", "36893488147419103233", "99999999999999999999", "-4294967297", "-9223372036854775809", "-18446744073709551617", "-18446744073709551618", "-36893488147419103233"}

func judgeLegacyApply(c *core.Ctx, sc *SeqCase, neg bool) {
	o := ref.Opts{NegIdx: neg, Legacy: true, HugeIndices: true}
	want := ref.Eval(sc.Doc, sc.Ops, o)
	res := ApplyLegacy(sc.DocText, sc.Patch(), neg, 0, "")
	c.Eval(1)
	d := sc.Describe()
	d["SupportNegativeIndices"] = neg
	d["library_output"] = clip(string(res.Out), 1500)
	d["library_error"] = errText(res.Err)
	if res.Panic != nil && res.Panic.Deviation {
		// (an earlier result changed under the caller: not a matter of this call's domain)
		d["panic"] = panicDetail(res.Panic)
		c.Violation("legacy:"+res.Panic.Sig(), d)
		return
	}
	if want.OutOfDom == "test of numerically equal, differently spelled numbers" && res.Panic == nil && res.Err != nil && containsText(res.Err.Error(), "testing value") {
		// RFC 6902 compares numbers numerically; the package compares their literals: known finding F06 when listed
		c.Violation("legacy:test-fails-on-numerically-equal-numbers", d, "F06")
		return
	}
	if want.OutOfDom != "" {
		c.Count("out_of_domain")
		c.Count("ood:" + want.OutOfDom)
		return
	}
	if res.Panic != nil {
		d["panic"] = panicDetail(res.Panic)
		c.Violation("legacy:"+res.Panic.Sig(), d)
		return
	}
	if res.DecodeErr != nil {
		d["decode_error"] = res.DecodeErr.Error()
		c.Violation("legacy:decode-rejects-generated-patch", d)
		return
	}
	if want.Doc != nil {
		// every operation applicable: must succeed with the RFC result, up to member order
		c.Count("in_domain:all-applicable")
		d["reference"] = clip(want.Doc.String(), 1500)
		if res.Err != nil {
			c.Violation("legacy:applicable-patch-fails", d)
			return
		}
		got, err := jr.Parse(res.Out)
		if err != nil {
			c.Violation("legacy:output-not-json", d)
			return
		}
		if !jr.Equal(want.Doc, got, jr.EqMode{}) {
			c.Violation("legacy:value-mismatch:last="+sc.Ops[len(sc.Ops)-1].Kind, d)
			return
		}
		c.Count("agree:ok")
		if len(sc.Ops) > 0 {
			c.Nontrivial("legacy", sc.Canon(), fmt.Sprint(neg))
		}
		for i, op := range sc.Ops {
			if i > 0 {
				c.Count("op-at-position>=2:" + op.Kind)
			}
		}
		if c.WantSample() {
			c.Sample(d)
		}
		return
	}
	kind := sc.Ops[want.FailIndex].Kind
	d["reference"] = fmt.Sprintf("fails at operation %d (%s): %s", want.FailIndex, kind, want.Cause)
	compared := false
	switch want.Cause {
	case ref.TestUnequal, ref.IndexRange:
		compared = true
	case ref.AbsentMember, ref.ParentUnreachable:
		compared = kind == "remove" || kind == "move"
	}
	if want.Cause == ref.RootNotContainer && kind == "replace" && res.Err != nil {
		// RFC 6902 lets replace put any value at the root; both packages refuse a string, number or boolean
		// there (v5 states it as part of its dialect, C18's text does not): known finding F05 when listed
		c.Violation("legacy:root-replacement-by-a-scalar-refused", d, "F05")
		return
	}
	if !compared {
		c.Count("failure-kind-not-compared:" + kind + "/" + want.Cause.String())
		return
	}
	c.Count("in_domain:failing")
	c.Count("cell:" + kind + "/" + want.Cause.String())
	if res.Err == nil {
		c.Violation("legacy:inapplicable-patch-succeeds:"+kind+"/"+want.Cause.String(), d)
		return
	}
	if res.Out != nil {
		c.Violation("legacy:document-returned-with-error", d)
		return
	}
	c.Count("agree:fail")
	c.Nontrivial("legacy", sc.Canon(), fmt.Sprint(neg))
}

var legacyKeys = []string{"a", "b", "c", "d", "e", "k", "0", "1", "zz", "a/b", "m~n", "~1", "/", "sensor_reading_01_celsius", "sensor_reading_02_celsius", "-1", "01", " ", "é"}

func init() {
	n := func(q, t int) func(core.Tier) int {
		return func(tier core.Tier) int {
			if tier == core.Thorough {
				return t
			}
			return q
		}
	}
	prof := gen.Plain().With(func(p *gen.Profile) { p.Keys = legacyKeys; p.Numbers = gen.OddNumbers })
	cfg := &SeqCfg{Prof: prof, MinOps: 1, MaxOps: 10, MissRate: 12, RootOK: true, PlainTest: true}
	core.Register(&core.Prop{
		ID:    "C18",
		Title: "Legacy root package: applicable RFC 6902 patches give the RFC result",
		Rule: "The legacy (v4) package, staged from /repo's root at check time, against the reference evaluator in the v4 dialect (no root-replacing add, no copy from \"\"), comparison up to member order, numbers by literal. All-applicable sequences must succeed with the RFC result; sequences whose first inapplicable operation is a failed test, a remove/move of an absent location or an out-of-range index must return an error and no document; other failure kinds are counted but not compared. " +
			"Strings are spelled without escapes and without <,>,& (v4 compares string spellings). Families: all single operations over the fixed documents (exhaustive), state-directed random sequences, copy-then-edit (independence of the duplicate), whitespace-wrapped documents. non-trivial = compared sequence with at least one operation; distinct = distinct (document, patch, SupportNegativeIndices).",
		Assumptions: []string{"reference evaluator in the v4 dialect", "stated domain: other failure kinds and escaped strings under test are not compared"},
		Setup:       setPoolMode,
		Floors: func(t core.Tier, m *core.Merged) []string {
			var out []string
			for _, k := range allKinds {
				if m.Counts["op-at-position>=2:"+k] < 200 {
					out = append(out, "operation "+k+" at second-or-later position fewer than 200 times")
				}
			}
			for _, cell := range []string{"test/test-unequal", "remove/absent-member", "move/absent-member", "remove/parent-unreachable", "add/index-range", "remove/index-range", "replace/index-range"} {
				if m.Counts["cell:"+cell] < 50 {
					out = append(out, "failure cell "+cell+" fewer than 50 times")
				}
			}
			return out
		},
		Families: []core.Family{
			{Name: "single-op-exhaustive", Exhaustive: true, Count: func(core.Tier) int { return nSingles() }, Run: func(c *core.Ctx, idx int) {
				s := singleCases[idx]
				sc := &SeqCase{DocText: fixedDocs[s.doc], Doc: mustParse(fixedDocs[s.doc]), Ops: []ref.Op{s.op}, OpTexts: []string{s.text}}
				judgeLegacyApply(c, sc, s.neg)
			}},
			{Name: "operations-deep-down", Exhaustive: true, Count: func(core.Tier) int { return len(deepDepths) * 2 }, Run: func(c *core.Ctx, idx int) {
				judgeLegacyApply(c, deepOpsCase(deepDepths[idx/2], idx%2), idx%4 < 2)
				c.Count("deep:cases")
			}},
			{Name: "indices-beyond-the-int-range", Exhaustive: true, Count: func(core.Tier) int { return len(hugeIdxToks18) * 5 * 2 * 2 }, Run: func(c *core.Ctx, idx int) {
				// an index token with more digits than an int holds addresses nothing: an error and no document
				// (never element 0 or 1 after wrapping around)
				tok := hugeIdxToks18[idx%len(hugeIdxToks18)]
				idx /= len(hugeIdxToks18)
				kind := idx % 5
				idx /= 5
				neg := idx%2 == 0
				doc, arr := `["a","b","c"]`, ""
				if idx/2 == 1 {
					doc, arr = `{"l":["a","b","c"],"k":1}`, "/l"
				}
				var op ref.Op
				var text string
				path := arr + "/" + tok
				switch kind {
				case 0:
					op, text = ref.Op{Kind: "remove", Path: path}, OpText("remove", path, "", "", false)
				case 1:
					op, text = ref.Op{Kind: "test", Path: path, Value: mustParse(`"a"`), HasValue: true}, OpText("test", path, "", `"a"`, true)
				case 2:
					op, text = ref.Op{Kind: "replace", Path: path, Value: mustParse(`"z"`), HasValue: true}, OpText("replace", path, "", `"z"`, true)
				case 3:
					op, text = ref.Op{Kind: "move", From: path, Path: arr + "/0"}, OpText("move", arr+"/0", path, "", false)
				default:
					op, text = ref.Op{Kind: "copy", From: path, Path: arr + "/0"}, OpText("copy", arr+"/0", path, "", false)
				}
				sc := &SeqCase{DocText: doc, Doc: mustParse(doc), Ops: []ref.Op{op}, OpTexts: []string{text}}
				judgeLegacyApply(c, sc, neg)
				c.Count("huge-index:cases")
			}},
			{Name: "random-sequences", Count: n(60000, 4500000), Run: func(c *core.Ctx, idx int) {
				neg := c.R.Intn(2) == 0
				sc := GenSeq(c.R, cfg, ref.Opts{NegIdx: neg, Legacy: true})
				if idx%6 == 0 {
					ws := []string{" ", "\n", "\t", "\r\n "}
					sc.DocText = ws[c.R.Intn(len(ws))] + sc.DocText + ws[c.R.Intn(len(ws))]
				}
				judgeLegacyApply(c, sc, neg)
			}},
			{Name: "names-that-differ-by-case-folding-or-normalisation", Count: n(15000, 600000), Run: func(c *core.Ctx, idx int) {
				neg := c.R.Intn(2) == 0
				ncfg := *cfg
				ncfg.Prof = cfg.Prof.With(func(p *gen.Profile) { p.Keys = gen.NearMissPlainKeys })
				ncfg.MissRate = 30
				ncfg.NearNames = true
				judgeLegacyApply(c, GenSeq(c.R, &ncfg, ref.Opts{NegIdx: neg, Legacy: true}), neg)
				c.Count("near-miss-names:cases")
			}},
			{Name: "applicable-only", Count: n(30000, 1800000), Run: func(c *core.Ctx, idx int) {
				neg := c.R.Intn(2) == 0
				cc := *cfg
				cc.MissRate = 0
				cc.MaxOps = 14
				judgeLegacyApply(c, GenSeq(c.R, &cc, ref.Opts{NegIdx: neg, Legacy: true}), neg)
			}},
			{Name: "copy-isolation", Count: n(10000, 600000), Run: func(c *core.Ctx, idx int) {
				o := ref.Opts{NegIdx: true, Legacy: true}
				cc := *cfg
				cc.MissRate = 0
				cc.RootOK = false
				sc := &SeqCase{}
				sc.DocText = cc.Prof.Root(c.R)
				sc.Doc = mustParse(sc.DocText)
				e := ref.New(sc.Doc, o)
				step := func(kinds ...string) {
					cc.Kinds = kinds
					op, text := GenOp(c.R, e, &cc)
					sc.Ops = append(sc.Ops, op)
					sc.OpTexts = append(sc.OpTexts, text)
					snap := e.Root.Clone()
					if e.Step(op) != ref.OK {
						e.Root = snap
					}
				}
				step("copy")
				for i := 1 + c.R.Intn(5); i > 0; i-- {
					step("add", "replace", "remove", "add", "replace", "move", "test")
				}
				judgeLegacyApply(c, sc, true)
			}},
		},
	})

	// ---------------------------------------------------------------- C19
	mprof := gen.Plain().With(func(p *gen.Profile) {
		p.Keys = []string{"a", "b", "c", "d", "k"}
		p.Width = 4
		p.ScalarBias = 35
		p.Numbers = gen.OddNumbers
	})
	fprof := mprof.With(func(p *gen.Profile) { p.Numbers = gen.PlainNumbers }) // numbers spelled as Go prints a float64
	legacyCreate := createFns{jpl.CreateMergePatch, jpl.MergePatch, "legacy:"}
	legacyCompose := composeFns{jpl.MergeMergePatches, jpl.MergePatch, "legacy:"}
	core.Register(&core.Prop{
		ID:    "C19",
		Title: "Legacy root package: merge-patch functions obey the same laws",
		Rule: "The oracles of C02, C03, C07 and C06 against the legacy (v4) package inside its stated domains: MergePatch with object or array patches on non-null documents vs RFC 7396; CreateMergePatch on objects whose numbers are spelled as Go prints a float64 (minimality always, round trip through the reference and through the library when B has no null member); " +
			"MergeMergePatches composition law under the compatibility condition; Equal vs independent structural equality on object- and array-rooted texts without escapes. Strings without escapes. non-trivial / distinct as in the v5 properties, tagged legacy.",
		Assumptions: []string{"ref7396 and jsonref are correct", "stated domains: object/array patches, float64-printable numbers for CreateMergePatch, no escapes for Equal"},
		Setup:       setPoolMode,
		Floors: func(t core.Tier, m *core.Merged) []string {
			var out []string
			for _, k := range []string{"agree", "round-trip:ok", "law:ok", "agree:true", "agree:false", "shape:null-member-beneath-array"} {
				if m.Counts[k] < 1000 {
					out = append(out, k+" fewer than 1000")
				}
			}
			return out
		},
		Families: []core.Family{
			{Name: "merge-universe-pairs", Exhaustive: true, Count: func(core.Tier) int { return universeN() * universeN() }, Run: func(c *core.Ctx, idx int) {
				judgeMerge(c, jpl.MergePatch, "legacy:", universe[idx/len(universe)], universe[idx%len(universe)])
			}},
			{Name: "merge-derived", Count: n(40000, 2400000), Run: func(c *core.Ctx, idx int) {
				docT := mprof.Any(c.R)
				if idx%5 != 0 {
					docT = mprof.Object(c.R, 1+c.R.Intn(4))
				}
				judgeMerge(c, jpl.MergePatch, "legacy:", docT, genMergePatchFor(c.R, mprof, mustParse(docT)))
			}},
			{Name: "deep-paths", Exhaustive: true, Count: func(core.Tier) int { return len(deepDepths) * 4 }, Run: func(c *core.Ctx, idx int) {
				// the four legacy functions on documents whose interesting part lies d levels down
				d := deepDepths[idx/4]
				if c.Tier != core.Thorough && d > 1025 && d != 2000 && d != 5001 {
					return
				}
				switch idx % 4 {
				case 0:
					judgeMerge(c, jpl.MergePatch, "legacy:", deepWrap(d, `{"keep":1,"drop":2,"chg":3,"o":{"x":1,"y":[1]}}`), deepWrap(d, `{"drop":null,"chg":4,"o":{"y":null,"n":{"m":null,"v":1}},"new":[1]}`))
				case 1:
					judgeCreateObj(c, legacyCreate, deepWrap(d, `{"keep":1,"drop":2,"chg":3,"o":{"x":1,"y":[1]},"z":"s"}`), deepWrap(d, `{"keep":1,"chg":4,"o":{"x":1,"y":[1]},"z":"s","new":[1]}`))
				case 2:
					judgeCompose(c, legacyCompose, deepWrap(d, `{"x":1,"y":{"z":2,"q":null},"t":"s"}`), deepWrap(d, `{"y":{"w":3,"z":null},"k":null,"n":{"m":null}}`), []string{deepWrap(d, `{"x":0,"k":5,"y":{"q":1,"w":0}}`), `{}`})
				default:
					judgeEqual(c, jpl.Equal, "legacy:", deepWrap(d, `{"k":[1,{"m":"s"}],"n":null}`), deepWrap(d, `{"k":[1,{"m":"t"}],"n":null}`), "one-point-difference")
					judgeEqual(c, jpl.Equal, "legacy:", deepWrap(d, `{"k":[1,{"m":"s"}],"n":null}`), deepWrap(d, ` { "n" : null , "k":[1,{"m":"s"}]}`), "equal-by-construction")
				}
				c.Count("deep:cases")
			}},
			{Name: "merge-strings-needing-escapes", Count: n(20000, 600000), Run: func(c *core.Ctx, idx int) {
				// quotes, backslashes, a literal backslash followed by u003c, control characters, < > &: the result is
				// re-encoded by the legacy package and must still be the RFC 7396 value
				ep := gen.Hostile().With(func(p *gen.Profile) {
					p.Keys = []string{"a", "b", "c", `q"r`, `b\s`, "x<y"}
					p.Strings = append(append([]string{}, gen.HostileStrings...), `\u003c`, `a\u0026b`, `\\u003e`, `\`, `\"`, `\\`)
					p.Width = 4
					p.ScalarBias = 40
					p.Wide = 0
				})
				docT := ep.Object(c.R, 1+c.R.Intn(3))
				judgeMerge(c, jpl.MergePatch, "legacy:", docT, genMergePatchFor(c.R, ep, mustParse(docT)))
				c.Count("escapes:cases")
			}},
			{Name: "create-universe-object-pairs", Exhaustive: true, Count: func(core.Tier) int { return universeObjN() * universeObjN() }, Run: func(c *core.Ctx, idx int) {
				a, b := universeObjs[idx/len(universeObjs)], universeObjs[idx%len(universeObjs)]
				if containsText(a+b, "1.0") {
					return // not spelled as Go prints a float64
				}
				judgeCreateObj(c, legacyCreate, a, b)
			}},
			{Name: "create-edited-objects", Count: n(40000, 2400000), Run: func(c *core.Ctx, idx int) {
				aT := fprof.Object(c.R, 1+c.R.Intn(4))
				a := mustParse(aT)
				b := editObject(c.R, fprof, a, c.R.Intn(4))
				if !float64Exact(b) {
					// two one-point edits of 9007199254740991 give ...993, which no float64 holds: outside the stated domain
					c.Count("out_of_domain:number-not-a-float64")
					return
				}
				judgeCreateObj(c, legacyCreate, aT, fprof.Respell(c.R, b, c.R.Intn(2) == 0))
			}},
			{Name: "compose-colliding-patches", Count: n(40000, 2400000), Run: func(c *core.Ctx, idx int) {
				cp := mprof.With(func(p *gen.Profile) { p.Keys = []string{"a", "b", "c"}; p.Width = 3 })
				p1T := cp.Object(c.R, 1+c.R.Intn(3))
				var p2T string
				switch c.R.Intn(10) {
				case 0, 1, 2, 3:
					p2T = genMergePatchFor(c.R, cp, mustParse(p1T))
				default:
					p2T = cp.Object(c.R, 1+c.R.Intn(3))
				}
				if p2 := mustParse(p2T); p2.K != jr.Obj {
					return // stated domain: object patches
				}
				docs := []string{`{}`, docWithEveryKey(c, cp, mustParse(p1T), mustParse(p2T)), cp.Object(c.R, 3)}
				judgeCompose(c, legacyCompose, p1T, p2T, docs)
			}},
			{Name: "names-that-differ-by-case-folding-or-normalisation", Count: n(9000, 600000), Run: func(c *core.Ctx, idx int) {
				np := mprof.With(func(p *gen.Profile) { p.Keys = gen.NearMissPlainKeys; p.Width = 3 })
				switch idx % 3 {
				case 0:
					docT := np.Object(c.R, 1+c.R.Intn(3))
					judgeMerge(c, jpl.MergePatch, "legacy:", docT, genMergePatchFor(c.R, np, mustParse(docT)))
				case 1:
					p1T, p2T := np.Object(c.R, 1+c.R.Intn(2)), np.Object(c.R, 1+c.R.Intn(2))
					judgeCompose(c, legacyCompose, p1T, p2T, []string{`{}`, docWithEveryKey(c, np, mustParse(p1T), mustParse(p2T)), np.Object(c.R, 2)})
				default:
					fp := np.With(func(p *gen.Profile) { p.Numbers = gen.PlainNumbers })
					aT := fp.Object(c.R, 1+c.R.Intn(3))
					b := editObject(c.R, fp, mustParse(aT), 1+c.R.Intn(3))
					if !float64Exact(b) {
						c.Count("out_of_domain:number-not-a-float64")
						return
					}
					judgeCreateObj(c, legacyCreate, aT, fp.Respell(c.R, b, c.R.Intn(2) == 0))
				}
				c.Count("near-miss-names:cases")
			}},
			{Name: "equal-pairs", Count: n(60000, 3600000), Run: func(c *core.Ctx, idx int) {
				ep := gen.Plain().With(func(p *gen.Profile) { p.Keys = legacyKeys; p.Numbers = gen.OddNumbers; p.WS = 10 })
				aT := ep.Root(c.R)
				a := mustParse(aT)
				var bT, kind string
				switch c.R.Intn(4) {
				case 0:
					bT, kind = ep.Respell(c.R, ep.MutateOnePoint(c.R, a), true), "one-point-difference"
				case 1:
					bT, kind = ep.Root(c.R), "independent"
				default:
					bT, kind = ep.Respell(c.R, a, true), "equal-by-construction"
				}
				if b := mustParse(bT); b.K != jr.Obj && b.K != jr.Arr {
					return
				}
				// the caller's texts may carry whitespace around the value
				ws := []string{"", "", " ", "\n  ", "\t", "\r\n"}
				aT = ws[c.R.Intn(len(ws))] + aT + ws[c.R.Intn(len(ws))]
				bT = ws[c.R.Intn(len(ws))] + bT + ws[c.R.Intn(len(ws))]
				judgeEqual(c, jpl.Equal, "legacy:", aT, bT, kind)
			}},
		},
	})
	_ = ref7396.Merge
}

// float64Exact: every number literal in v is the exact value of some float64 (the legacy package's stated domain).
func float64Exact(v *jr.Value) bool {
	if v.K == jr.Num {
		want, ok := new(big.Rat).SetString(v.Lit)
		f, err := strconv.ParseFloat(v.Lit, 64)
		if !ok || err != nil {
			return false
		}
		return new(big.Rat).SetFloat64(f).Cmp(want) == 0
	}
	for _, e := range v.A {
		if !float64Exact(e) {
			return false
		}
	}
	for _, e := range v.Vals {
		if !float64Exact(e) {
			return false
		}
	}
	return true
}

func containsText(s, sub string) bool {
	for i := 0; i+len(sub) <= len(s); i++ {
		if s[i:i+len(sub)] == sub {
			return true
		}
	}
	return false
}
