package props

import (
	"fmt"

	"github.com/evanphx/json-patch/v5/verifharness/core"
	"github.com/evanphx/json-patch/v5/verifharness/gen"
	jr "github.com/evanphx/json-patch/v5/verifharness/jsonref"
	ref "github.com/evanphx/json-patch/v5/verifharness/ref6902"
)

// judgeAllowMissing: Apply(on, P) must equal Apply(off, P') where P' is P
// without the removes whose target or an ancestor is absent at their turn
// (decided by the reference as it walks the sequence) - the library against
// itself - and both must agree with the reference.
// c13Ref: C13's stated domain does not exclude empty reference tokens ("/a/" names the member
// called ""), C01's does.
func c13Ref(o V5Opts) ref.Opts {
	r := o.Ref()
	r.EmptyTokens = true
	r.HugeIndices = true // "out-of-range-index targets": however many digits the index has
	return r
}

var hugeIdxToks = []string{"4294967296", "9223372036854775807", "9223372036854775808", "18446744073709551616", "99999999999999999999", "1000000000000000000000000000000",
	"-4294967296", "-9223372036854775808", "-9223372036854775809", "-18446744073709551617", "-99999999999999999999"}
var hugeIdxDocs = []struct{ doc, arr string }{
	{`{"b":[1,2,3],"c":0}`, "/b"},
	{`{"a":{"l":[[1],{"x":2}]},"z":[]}`, "/a/l"},
	{`{"e":[],"k":1}`, "/e"},
}

func judgeAllowMissing(c *core.Ctx, sc *SeqCase, o V5Opts) {
	o.AllowMissing = true
	want := ref.Eval(sc.Doc, sc.Ops, c13Ref(o))
	c.Eval(1)
	if want.OutOfDom != "" {
		c.Count("out_of_domain")
		c.Count("ood:" + want.OutOfDom)
		return
	}
	c.Count("in_domain")
	skip := map[int]bool{}
	for _, i := range want.Skipped {
		skip[i] = true
	}
	pruned := &SeqCase{DocText: sc.DocText, Doc: sc.Doc}
	for i := range sc.Ops {
		if !skip[i] {
			pruned.Ops = append(pruned.Ops, sc.Ops[i])
			pruned.OpTexts = append(pruned.OpTexts, sc.OpTexts[i])
		}
	}
	off := o
	off.AllowMissing = false
	// the reference must agree with itself first (harness sanity)
	wantOff := ref.Eval(sc.Doc, pruned.Ops, c13Ref(off))
	if (want.Doc == nil) != (wantOff.Doc == nil) || (want.Doc != nil && !jr.Equal(want.Doc, wantOff.Doc, jr.EqMode{Ordered: true})) {
		c.Inconclusive("reference evaluator disagrees with itself on the pruned patch: " + sc.Canon())
		return
	}
	rOn := ApplyV5(sc.DocText, sc.Patch(), o, "")
	rOff := ApplyV5(sc.DocText, pruned.Patch(), off, "")
	c.Eval(2)
	d := sc.Describe()
	d["options"] = o.String()
	d["skipped_removes"] = want.Skipped
	d["patch_without_skipped_removes"] = clip(pruned.Patch(), 3000)
	d["with_option"] = map[string]any{"out": clip(string(rOn.Out), 1500), "err": errText(rOn.Err)}
	d["without_option_pruned"] = map[string]any{"out": clip(string(rOff.Out), 1500), "err": errText(rOff.Err)}
	if want.Doc != nil {
		d["reference"] = clip(want.Doc.String(), 1500)
	} else {
		d["reference"] = fmt.Sprintf("fails at operation %d (%s): %s", want.FailIndex, sc.Ops[want.FailIndex].Kind, want.Cause)
	}
	if rOn.Panic != nil {
		d["panic"] = panicDetail(rOn.Panic)
		c.Violation(rOn.Panic.Sig(), d)
		return
	}
	if rOff.Panic != nil {
		d["panic"] = panicDetail(rOff.Panic)
		c.Violation(rOff.Panic.Sig(), d)
		return
	}
	if len(want.Skipped) > 0 {
		c.Nontrivial(sc.Canon(), o.String())
		c.CountN("skipped-removes", int64(len(want.Skipped)))
	}
	// library against itself
	switch {
	case (rOn.Err == nil) != (rOff.Err == nil):
		c.Violation("option-changes-success-vs-pruned-patch", d)
		return
	case rOn.Err != nil:
		if classify(rOn.Err) != classify(rOff.Err) {
			c.Violation("option-changes-error-class-vs-pruned-patch", d)
			return
		}
	default:
		if string(rOn.Out) != string(rOff.Out) {
			a, b := mustParseOut(rOn.Out), mustParseOut(rOff.Out)
			if !jr.Equal(a, b, jr.EqMode{Ordered: true}) {
				c.Violation("option-changes-document-vs-pruned-patch", d)
				return
			}
		}
	}
	// and against the reference
	switch {
	case want.Doc == nil && rOn.Err == nil:
		c.Violation(fmt.Sprintf("library-succeeds-reference-fails:%s@%s", want.Cause, sc.Ops[want.FailIndex].Kind), d)
	case want.Doc != nil && rOn.Err != nil:
		c.Violation("library-fails-reference-succeeds", d)
	case want.Doc != nil:
		if !jr.Equal(want.Doc, mustParseOut(rOn.Out), jr.EqMode{}) {
			c.Violation("value-mismatch-with-reference", d)
		} else {
			c.Count("agree:ok")
		}
	default:
		c.Count("agree:fail:" + want.Cause.String())
		// the failing operation must be the same one
		if len(rOn.Events.Done) != want.FailIndex+1 {
			d["ops_executed"] = len(rOn.Events.Done)
			c.Violation("patch-stops-at-a-different-operation", d)
		}
	}
	if c.WantSample() && len(want.Skipped) > 0 {
		c.Sample(d)
	}
}

func init() {
	prof := gen.Hostile().With(func(p *gen.Profile) { p.Keys = append(append([]string{}, c01Keys...), "") })
	n := func(q, t int) func(core.Tier) int {
		return func(tier core.Tier) int {
			if tier == core.Thorough {
				return t
			}
			return q
		}
	}
	core.Register(&core.Prop{
		ID:    "C13",
		Title: "AllowMissingPathOnRemove skips only removes of absent targets (v5)",
		Rule: "Sequences mixing removes of existing / absent-member / out-of-range / absent-ancestor / through-scalar targets with adds that create and moves that delete those targets. The reference decides, as it walks the sequence, which removes address an absent target; " +
			"Apply(option on, P) is compared (document bytes or error class) with Apply(option off, P minus those removes) - the library against itself - and with the reference. non-trivial = in-domain sequence in which at least one remove was skipped.",
		Assumptions: []string{"reference evaluator decides which removes are skipped", "remove of \"\" and non-numeric last tokens on arrays are outside the stated domain"},
		Setup:       setPoolMode,
		Finish:      poolFinish,
		Floors: func(t core.Tier, m *core.Merged) []string {
			out := poolFloor(m)
			if m.Counts["skipped-removes"] < 2000 {
				out = append(out, "fewer than 2000 skipped removes observed")
			}
			if m.Counts["agree:ok"] < 2000 {
				out = append(out, "fewer than 2000 successful comparisons")
			}
			return out
		},
		Families: []core.Family{
			{Name: "single-remove-exhaustive", Exhaustive: true, Count: func(core.Tier) int { return nSingles() }, Run: func(c *core.Ctx, idx int) {
				s := singleCases[idx]
				if s.op.Kind != "remove" && s.op.Kind != "move" && idx%7 != 0 {
					return // the other kinds are sampled: they must behave as without the option
				}
				sc := &SeqCase{DocText: fixedDocs[s.doc], Doc: mustParse(fixedDocs[s.doc]), Ops: []ref.Op{s.op}, OpTexts: []string{s.text}}
				judgeAllowMissing(c, sc, V5Opts{NegIdx: s.neg, EscapeHTML: true})
			}},
			{Name: "indices-beyond-the-int-range", Exhaustive: true, Count: func(core.Tier) int { return len(hugeIdxToks) * len(hugeIdxDocs) * 3 * 2 * 2 }, Run: func(c *core.Ctx, idx int) {
				// an index with more digits than an int holds is as out of range as len+1: skipped with the option,
				// as last token, as interior token, and with another operation following
				tok := hugeIdxToks[idx%len(hugeIdxToks)]
				idx /= len(hugeIdxToks)
				dc := hugeIdxDocs[idx%len(hugeIdxDocs)]
				idx /= len(hugeIdxDocs)
				shape := idx % 3
				idx /= 3
				neg := idx%2 == 0
				follow := idx/2 == 1
				if tok[0] == '-' && !neg {
					// negative indices are off: what a remove at a negative index does under the option is not for the
					// reference to say, but -99999999999999999999 is as far out of range as -7 and must fare the same
					o := V5Opts{NegIdx: false, EscapeHTML: true, AllowMissing: true}
					p1 := OpText("remove", dc.arr+"/"+tok, "", "", false)
					p2 := OpText("remove", dc.arr+"/-7", "", "", false)
					r1, r2 := ApplyV5(dc.doc, PatchText([]string{p1}), o, ""), ApplyV5(dc.doc, PatchText([]string{p2}), o, "")
					c.Eval(2)
					if r1.Panic != nil || r2.Panic != nil || (r1.Err == nil) != (r2.Err == nil) || string(r1.Out) != string(r2.Out) {
						c.Violation("negative-index-beyond-the-int-range-fares-differently-from-minus-seven", map[string]any{"doc": dc.doc, "options": o.String(),
							"patch_long": p1, "result_long": map[string]any{"out": clip(string(r1.Out), 300), "err": errText(r1.Err)},
							"patch_minus_seven": p2, "result_minus_seven": map[string]any{"out": clip(string(r2.Out), 300), "err": errText(r2.Err)}})
					}
					c.Count("huge-index:negatives-off-compared")
					return
				}
				path := dc.arr + "/" + tok
				if shape == 1 {
					path += "/x"
				}
				ops := []ref.Op{{Kind: "remove", Path: path}}
				texts := []string{OpText("remove", path, "", "", false)}
				if shape == 2 {
					// first a remove that exists, so that the array has been parsed and edited
					ops = append([]ref.Op{{Kind: "remove", Path: dc.arr + "/0"}}, ops...)
					texts = append([]string{OpText("remove", dc.arr+"/0", "", "", false)}, texts...)
				}
				if follow {
					ops = append(ops, ref.Op{Kind: "remove", Path: dc.arr})
					texts = append(texts, OpText("remove", dc.arr, "", "", false))
				}
				sc := &SeqCase{DocText: dc.doc, Doc: mustParse(dc.doc), Ops: ops, OpTexts: texts}
				judgeAllowMissing(c, sc, V5Opts{NegIdx: neg, EscapeHTML: true})
				c.Count("huge-index:cases")
			}},
			{Name: "remove-heavy-sequences", Count: n(50000, 1200000), Run: func(c *core.Ctx, idx int) {
				o := V5Opts{NegIdx: c.R.Intn(2) == 0, EscapeHTML: true}
				cfg := &SeqCfg{Prof: prof, MinOps: 1, MaxOps: 10, MissRate: 35, RootOK: true, ContinueAfterFail: false,
					Kinds: []string{"remove", "remove", "remove", "add", "move", "replace", "copy", "test"}}
				or := c13Ref(o)
				or.AllowMissing = true
				judgeAllowMissing(c, GenSeq(c.R, cfg, or), o)
			}},
			{Name: "options-value-reused", Count: n(6000, 120000), Run: func(c *core.Ctx, idx int) {
				// one *ApplyOptions value for a history of calls: unjudged calls that fail in odd ways (moves from
				// absent places, from "/a/", from "/", removes through scalars) alternate with judged ones; the
				// option the caller set must still be in force, unchanged, in every later call
				on := V5Opts{NegIdx: c.R.Intn(2) == 0, EscapeHTML: true, AllowMissing: true}
				reuseOpts, reuseFrozen, reuseSettings = on.Lib(), true, on
				defer func() { reuseOpts, reuseFrozen = nil, false }()
				for k := 0; k < 3; k++ {
					hd := prof.Root(c.R)
					var ops []string
					for j := 1 + c.R.Intn(3); j > 0; j-- {
						ops = append(ops, []string{
							OpText("move", "/zz", "/a/", "", false), OpText("move", "/zz", "/", "", false), OpText("move", "/zz/y", "/nope", "", false),
							OpText("move", "/q", "/0/", "", false), OpText("remove", "/a/b/c/d", "", "", false), OpText("move", "/a", "/a/b", "", false),
							OpText("copy", "/zz", "/nope", "", false), OpText("test", "/a", "", "1", true), OpText("remove", "/", "", "", false),
						}[c.R.Intn(9)])
					}
					ApplyV5(hd, PatchText(ops), on, "")
					c.Eval(1)
					o2 := V5Opts{NegIdx: on.NegIdx, EscapeHTML: true}
					cfg := &SeqCfg{Prof: prof, MinOps: 1, MaxOps: 6, MissRate: 35, RootOK: true,
						Kinds: []string{"remove", "remove", "remove", "add", "move", "replace", "copy", "test"}}
					or := c13Ref(o2)
					or.AllowMissing = true
					judgeAllowMissing(c, GenSeq(c.R, cfg, or), o2)
				}
				c.Count("options-value-reused:histories")
			}},
			{Name: "mixed-sequences", Count: n(20000, 400000), Run: func(c *core.Ctx, idx int) {
				o := V5Opts{NegIdx: c.R.Intn(2) == 0, EscapeHTML: c.R.Intn(2) == 0}
				cfg := &SeqCfg{Prof: prof, MinOps: 2, MaxOps: 12, MissRate: 20, RootOK: true, ContinueAfterFail: true}
				or := c13Ref(o)
				or.AllowMissing = true
				judgeAllowMissing(c, GenSeq(c.R, cfg, or), o)
			}},
		},
	})
}
