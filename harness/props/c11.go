package props

import (
	stdjson "encoding/json"
	"fmt"
	"strings"
	"sync"

	jp "github.com/evanphx/json-patch/v5"
	ij "github.com/evanphx/json-patch/v5/internal/json"
	"github.com/evanphx/json-patch/v5/verifharness/core"
	"github.com/evanphx/json-patch/v5/verifharness/gen"
	jr "github.com/evanphx/json-patch/v5/verifharness/jsonref"
	"github.com/evanphx/json-patch/v5/verifharness/mon"
)

var sixOps = map[string]bool{"add": true, "remove": true, "replace": true, "move": true, "copy": true, "test": true}

type refOp struct {
	kind, path, from string
	value            *jr.Value
	hasValue         bool
}

// refAccept is the reference acceptor of C11; it returns the decoded
// operations, or a reason for rejection. Duplicate member names: the last one
// counts (as encoding/json documents for maps).
func refAccept(text []byte) (ops []refOp, reject string) {
	v, err := jr.Parse(text)
	if err != nil {
		return nil, "ill-formed JSON"
	}
	if v.K != jr.Arr {
		return nil, "root is not an array"
	}
	for i, e := range v.A {
		if e.K != jr.Obj {
			return nil, fmt.Sprintf("element %d is not an object", i)
		}
		last := func(name string) *jr.Value {
			var r *jr.Value
			for j, k := range e.Keys {
				if k == name {
					r = e.Vals[j]
				}
			}
			return r
		}
		var op refOp
		o := last("op")
		if o == nil || o.K != jr.Str || !sixOps[o.S] {
			return nil, fmt.Sprintf("element %d: op missing, not a string or unknown", i)
		}
		op.kind = o.S
		p := last("path")
		if p == nil || p.K != jr.Str {
			return nil, fmt.Sprintf("element %d: path missing or not a string", i)
		}
		op.path = p.S
		if val := last("value"); val != nil {
			op.value, op.hasValue = val, true
		}
		if (op.kind == "add" || op.kind == "replace") && !op.hasValue {
			return nil, fmt.Sprintf("element %d: value missing", i)
		}
		f := last("from")
		if op.kind == "move" || op.kind == "copy" {
			if f == nil || f.K != jr.Str {
				return nil, fmt.Sprintf("element %d: from missing or not a string", i)
			}
		}
		if f != nil && f.K == jr.Str {
			op.from = f.S
		}
		ops = append(ops, op)
	}
	return ops, ""
}

// ifaceEqual compares what ValueInterface returned with the reference value,
// numbers through their literal.
func ifaceEqual(x any, v *jr.Value) bool {
	switch t := x.(type) {
	case nil:
		return v.K == jr.Null
	case bool:
		return v.K == jr.Bool && v.B == t
	case ij.Number:
		return v.K == jr.Num && string(t) == v.Lit
	case string:
		return v.K == jr.Str && t == v.S
	case []any:
		if v.K != jr.Arr || len(t) != len(v.A) {
			return false
		}
		for i := range t {
			if !ifaceEqual(t[i], v.A[i]) {
				return false
			}
		}
		return true
	case map[string]any:
		if v.K != jr.Obj || len(t) != len(v.Keys) {
			return false
		}
		for i, k := range v.Keys {
			e, ok := t[k]
			if !ok || !ifaceEqual(e, v.Vals[i]) {
				return false
			}
		}
		return true
	}
	return false
}

var boundaryLens = []int{255, 256, 257, 511, 512, 513, 1023, 1024, 1025, 1535, 1536, 1537, 2047, 2048, 2049, 3583, 3584, 3585, 4095, 4096, 4097, 7679, 7680, 7681, 8191, 8192, 8193, 15871, 15872, 15873, 65535, 65536, 65537}

var classicIllFormed = []string{`{"a":1,}`, `[1,]`, `[,1]`, `{"a":1,,"b":2}`, `{,}`, `-01`, `01`, `00`, `-`, `+1`, `.5`, `1.`, `1e`, `1e+`, `0x10`, `1_000`, `NaN`, `Infinity`, `-Infinity`, `tru`, `True`, `nul`, `undefined`,
	`'a'`, `{'a':1}`, `{a:1}`, `{"a" 1}`, `{"a":}`, `{"a"}`, `[1 2]`, `"\x41"`, `"\u12"`, `"\u12G4"`, `"\'"`, `"\a"`, "\"a\nb\"", "\"a\tb\"", "\"\x00\"", `"abc`, `abc"`, `/*c*/1`, `1//c`, `#c`, `[1]]`, `{}}`, `]`, `}`, `[`, `{`, `{"a":[}`, `[{"a":1]`,
	"\xef\xbb\xbf1", "\v1", "1\f", "\u00a01", `1 2`, `{} {}`, `"a" "b"`, `[1,2,]`, `{"a":1 "b":2}`, `[[]`, `{"a":{"b":1}`, `-0x1`, `1.e5`, `1.5.5`, `--1`, `1-`, `""""`, `\`, `"\"`}

func judgeDecode(c *core.Ctx, text string, kind string) {
	b := []byte(text)
	var p jp.Patch
	var err error
	// the library gets a buffer of its own, which is overwritten as soon as DecodePatch has returned (a
	// caller may reuse its read buffer): what the accessors return afterwards must still be the decoded members
	lb := append([]byte(nil), b...)
	pn := mon.Try(func() { p, err = jp.DecodePatch(lb) })
	for i := range lb {
		lb[i] = 'X'
	}
	c.Eval(1)
	d := map[string]any{"input": clip(text, 2500), "error": errText(err), "kind": kind}
	if pn != nil {
		d["panic"] = panicDetail(pn)
		c.Violation(pn.Sig(), d)
		return
	}
	if p != nil && err != nil {
		c.Violation("patch-returned-together-with-error", d)
		return
	}
	var ops []refOp
	var reject string
	if isUTF8(b) {
		if msg := crossCheckText(b); msg != "" {
			c.Inconclusive(msg)
			return
		}
		ops, reject = refAccept(b)
	} else if !stdjson.Valid(b) {
		reject = "ill-formed JSON (ill-formed UTF-8 outside strings)"
	} else {
		ops, reject = refAccept(b)
	}
	if strings.TrimSpace(text) == "null" {
		c.Count("out_of_domain")
		return
	}
	c.Count("in_domain")
	d["reference"] = reject
	if reject != "" {
		c.Count("ref:reject")
		if err == nil {
			c.Violation("accepts-ill-formed-patch:"+kind+":"+stripDigits(reject), d)
			return
		}
		c.Nontrivial(text)
		if c.WantSample() {
			c.Sample(d)
		}
		return
	}
	c.Count("ref:accept")
	if err != nil {
		c.Violation("rejects-well-formed-patch:"+kind, d)
		return
	}
	c.Nontrivial(text)
	if len(p) != len(ops) {
		c.Violation("wrong-number-of-operations", d)
		return
	}
	for i, op := range ops {
		var k, pa, fr string
		var e1, e2, e3 error
		var vi any
		pn := mon.Try(func() {
			k = p[i].Kind()
			pa, e1 = p[i].Path()
			fr, e2 = p[i].From()
			vi, e3 = p[i].ValueInterface()
		})
		c.Eval(1)
		d["operation"] = i
		if pn != nil {
			d["panic"] = panicDetail(pn)
			c.Violation("accessor:"+pn.Sig(), d)
			return
		}
		if k != op.kind {
			d["got"] = k
			c.Violation("Kind-differs-from-decoded-member", d)
			return
		}
		if e1 != nil || pa != op.path {
			d["got"] = pa
			c.Violation("Path-differs-from-decoded-member", d)
			return
		}
		if op.kind == "move" || op.kind == "copy" {
			if e2 != nil || fr != op.from {
				d["got"] = fr
				c.Violation("From-differs-from-decoded-member", d)
				return
			}
		}
		if op.hasValue && !op.value.HasDup() {
			if e3 != nil || !ifaceEqual(vi, op.value) {
				d["got"] = fmt.Sprintf("%#v (err %v)", vi, e3)
				c.Violation("ValueInterface-differs-from-decoded-member", d)
				return
			}
			c.Count("accessor:value-compared")
		}
		if !op.hasValue && e3 == nil {
			c.Violation("ValueInterface-succeeds-without-value-member", d)
			return
		}
	}
	if c.WantSample() {
		c.Sample(d)
	}
}

func stripDigits(s string) string {
	var sb strings.Builder
	for _, r := range s {
		if r < '0' || r > '9' {
			sb.WriteRune(r)
		}
	}
	return sb.String()
}

// ---- bounded-exhaustive member mutations

type memberMut struct {
	name string
	f    func(members [][2]string, i int) [][2]string
}

var canonicalOps = [][][2]string{
	{{"op", `"add"`}, {"path", `"/a"`}, {"value", `1`}},
	{{"op", `"remove"`}, {"path", `"/a"`}},
	{{"op", `"replace"`}, {"path", `"/a"`}, {"value", `{"b":null}`}},
	{{"op", `"move"`}, {"from", `"/a"`}, {"path", `"/b"`}},
	{{"op", `"copy"`}, {"from", `"/a"`}, {"path", `"/b"`}},
	{{"op", `"test"`}, {"path", `"/a"`}, {"value", `"x"`}},
}

func withVal(val string) func([][2]string, int) [][2]string {
	return func(m [][2]string, i int) [][2]string {
		o := append([][2]string{}, m...)
		o[i][1] = val
		return o
	}
}

var memberMuts = []memberMut{
	{"delete", func(m [][2]string, i int) [][2]string { return append(append([][2]string{}, m[:i]...), m[i+1:]...) }},
	{"null", withVal(`null`)},
	{"number", withVal(`7`)},
	{"bool", withVal(`true`)},
	{"string-valid", withVal(`"replace"`)},
	{"string-other", withVal(`"bogus"`)},
	{"string-escaped", withVal(`"` + gen.U("0061") + `dd"`)},
	{"string-case", withVal(`"ADD"`)},
	{"string-empty", withVal(`""`)},
	{"array", withVal(`["add"]`)},
	{"object", withVal(`{"op":"add"}`)},
	{"rename-case", func(m [][2]string, i int) [][2]string {
		o := append([][2]string{}, m...)
		o[i][0] = strings.ToUpper(o[i][0][:1]) + o[i][0][1:]
		return o
	}},
	{"rename-escaped", func(m [][2]string, i int) [][2]string {
		o := append([][2]string{}, m...)
		o[i][0] = gen.U(fmt.Sprintf("%04x", o[i][0][0])) + o[i][0][1:]
		return o
	}},
	{"dup-same", func(m [][2]string, i int) [][2]string { return append(append([][2]string{}, m...), m[i]) }},
	{"dup-valid-then-invalid", func(m [][2]string, i int) [][2]string {
		return append(append([][2]string{}, m...), [2]string{m[i][0], `7`})
	}},
	{"dup-invalid-then-valid", func(m [][2]string, i int) [][2]string {
		return append(append([][2]string{{m[i][0], `7`}}, m...))
	}},
	{"dup-valid-then-null", func(m [][2]string, i int) [][2]string {
		return append(append([][2]string{}, m...), [2]string{m[i][0], `null`})
	}},
	{"extra-member", func(m [][2]string, i int) [][2]string {
		return append(append([][2]string{}, m...), [2]string{"xyz", `{"op":1}`})
	}},
	{"extra-from", func(m [][2]string, i int) [][2]string {
		return append(append([][2]string{}, m...), [2]string{"from", `7`})
	}},
}

func spellOp(m [][2]string) string {
	var parts []string
	for _, kv := range m {
		parts = append(parts, `"`+kv[0]+`":`+kv[1])
	}
	return "{" + strings.Join(parts, ",") + "}"
}

var (
	mutOnce   sync.Once
	mutElems  []string // single mutated elements (and odd element kinds)
	mutLabels []string
)

func buildMutants() {
	for oi, m := range canonicalOps {
		mutElems = append(mutElems, spellOp(m))
		mutLabels = append(mutLabels, fmt.Sprintf("op%d:canonical", oi))
		for i := range m {
			for _, mu := range memberMuts {
				mm := mu.f(cloneMembers(m), i)
				mutElems = append(mutElems, spellOp(mm))
				mutLabels = append(mutLabels, fmt.Sprintf("op%d:%s:%s", oi, m[i][0], mu.name))
			}
		}
	}
	for _, e := range []string{`null`, `7`, `"add"`, `[]`, `[{"op":"remove","path":"/a"}]`, `{}`, `true`} {
		mutElems = append(mutElems, e)
		mutLabels = append(mutLabels, "element:"+e)
	}
}

func cloneMembers(m [][2]string) [][2]string { return append([][2]string{}, m...) }

func nMutants() int { mutOnce.Do(buildMutants); return len(mutElems) }

// positions: alone, and planted at each position among 1..4 valid operations
var plantings = [][2]int{{0, 0}, {0, 1}, {1, 1}, {0, 2}, {1, 2}, {2, 2}, {2, 3}, {4, 4}, {0, 4}}

func plant(elem string, before, total int, r func(int) int) string {
	var parts []string
	for i := 0; i <= total; i++ {
		if i == before {
			parts = append(parts, elem)
		}
		if i < total {
			parts = append(parts, spellOp(canonicalOps[r(len(canonicalOps))]))
		}
	}
	return "[" + strings.Join(parts, ",") + "]"
}

func init() {
	n := func(q, t int) func(core.Tier) int {
		return func(tier core.Tier) int {
			if tier == core.Thorough {
				return t
			}
			return q
		}
	}
	prof := gen.Hostile().With(func(p *gen.Profile) { p.Dup = true; p.Lone = true })
	seqProf := gen.Hostile().With(func(p *gen.Profile) { p.Keys = c01Keys })
	core.Register(&core.Prop{
		ID:    "C11",
		Title: "DecodePatch accepts exactly well-formed RFC 6902 patch documents (v5)",
		Rule: "DecodePatch of the real library against a reference acceptor written from the property text (array root; object elements; op a string among the six after unescaping; string path; value present for add/replace; string from for move/copy; unknown members ignored; duplicate names: last counts). " +
			"Exhaustive: 6 canonical operations x each member x 19 mutations (delete, null, retype, rename by case/escape, duplicate in both orders, extra members) + odd element kinds, each alone and planted at 9 positions among valid operations; thorough adds all pairs of simultaneous mutations; root kinds; random and byte-mutated patches; whitespace-wrapped patches. " +
			"For accepted patches Kind/Path/From/ValueInterface must return the decoded members (numbers through their literal). non-trivial = in-domain input (anything but the text null); distinct = distinct input text.",
		Assumptions: []string{"refAccept is the property's acceptance rule", "the JSON text null is outside the stated domain"},
		Setup:       setPoolMode,
		Finish:      poolFinish,
		Floors: func(t core.Tier, m *core.Merged) []string {
			out := poolFloor(m)
			if m.Counts["ref:accept"] < 5000 || m.Counts["ref:reject"] < 5000 || m.Counts["accessor:value-compared"] < 5000 {
				out = append(out, "accept / reject / accessor comparisons fewer than 5000 each")
			}
			return out
		},
		Families: []core.Family{
			{Name: "member-mutations", Exhaustive: true, Count: func(core.Tier) int { return nMutants() * len(plantings) }, Run: func(c *core.Ctx, idx int) {
				mi, pi := idx/len(plantings), idx%len(plantings)
				judgeDecode(c, plant(mutElems[mi], plantings[pi][0], plantings[pi][1], c.R.Intn), "mutation:"+strings.SplitN(mutLabels[mi], ":", 2)[1])
			}},
			{Name: "mutation-pairs", Exhaustive: true, Count: func(t core.Tier) int {
				if t == core.Thorough {
					return nMutants() * nMutants()
				}
				return 0
			}, Run: func(c *core.Ctx, idx int) {
				a, b := mutElems[idx/len(mutElems)], mutElems[idx%len(mutElems)]
				judgeDecode(c, "["+a+","+b+"]", "mutation-pair")
			}},
			{Name: "root-kinds", Exhaustive: true, Count: func(core.Tier) int { return 16 }, Run: func(c *core.Ctx, idx int) {
				roots := []string{`[]`, ` [ ] `, `{}`, `{"op":"remove","path":"/a"}`, `"[]"`, `7`, `true`, `null`, ``, ` `, `[[]]`, `[{}]`, `[null]`, "\n[\n]\n", `[]]`, `[`}
				judgeDecode(c, roots[idx], "root")
			}},
			{Name: "classic-ill-formed-json", Exhaustive: true, Count: func(core.Tier) int { return len(classicIllFormed) * 6 * 3 }, Run: func(c *core.Ctx, idx int) {
				// the usual ways in which a text is almost JSON (trailing commas, leading zeros, signs, bare words,
				// single quotes, comments, bad escapes, stray closers, ...), each as the value / as an extra
				// member / as trailing text of every operation kind: all of them must be refused
				bad := classicIllFormed[idx%len(classicIllFormed)]
				idx /= len(classicIllFormed)
				op := canonicalOps[idx%6]
				idx /= 6
				good := spellOp(op)
				var t string
				switch idx % 3 {
				case 0: // as the value of an (ignored or used) member
					t = `[` + good[:len(good)-1] + `,"x":` + bad + `}]`
				case 1: // as a further element of the patch
					t = `[` + good + `,` + bad + `]`
				default: // wrapped around the whole patch
					t = bad + `[` + good + `]`
					if c.R.Intn(2) == 0 {
						t = `[` + good + `]` + bad
					}
				}
				if _, rej := refAccept([]byte(t)); rej == "" {
					return // (a fragment that happens to give a well-formed patch in this position)
				}
				c.Count("classic-ill-formed:planted")
				judgeDecode(c, t, "classic-ill-formed")
			}},
			{Name: "trailing-data-at-buffer-boundaries", Exhaustive: true, Count: func(core.Tier) int { return len(boundaryLens) * 3 * 6 }, Run: func(c *core.Ctx, idx int) {
				// a valid patch that ends exactly at (or one byte around) the sizes at which buffered readers refill,
				// followed by data that makes the text ill-formed
				L := boundaryLens[idx%len(boundaryLens)]
				idx /= len(boundaryLens)
				pad := idx % 3
				idx /= 3
				junk := []string{"x", "]", "{}", " 1", "}garbage", ",[]"}[idx%6]
				base := `[{"op":"add","path":"/a","value":"`
				tail := `"}]`
				var t string
				switch pad {
				case 0: // a long string value
					t = base + strings.Repeat("v", L-len(base)-len(tail)) + tail
				case 1: // whitespace inside the array
					t = `[{"op":"remove","path":"/a"}` + strings.Repeat(" ", L-len(`[{"op":"remove","path":"/a"}]`)) + `]`
				default: // whitespace after the closing bracket, up to the boundary
					t = `[{"op":"remove","path":"/a"}]` + strings.Repeat("\n", L-len(`[{"op":"remove","path":"/a"}]`))
				}
				judgeDecode(c, t, "boundary-control")
				judgeDecode(c, t+junk, "boundary-trailing-data")
				c.Count("boundary:cases")
			}},
			{Name: "generated-valid-patches", Count: n(30000, 1800000), Run: func(c *core.Ctx, idx int) {
				cfg := &SeqCfg{Prof: seqProf, MinOps: 0, MaxOps: 8, MissRate: 30, RootOK: true, ContinueAfterFail: true}
				sc := GenSeq(c.R, cfg, V5Opts{NegIdx: true}.Ref())
				t := sc.Patch()
				if c.R.Intn(3) == 0 {
					t = []string{" ", "\n", "\t\r\n ", ""}[c.R.Intn(4)] + t + []string{" ", "\n", "\r", ""}[c.R.Intn(4)]
				}
				judgeDecode(c, t, "generated-valid")
			}},
			{Name: "mutated-bytes", Count: n(60000, 4500000), Run: func(c *core.Ctx, idx int) {
				var t string
				switch c.R.Intn(4) {
				case 0:
					t = prof.Any(c.R)
				case 1:
					t = "[" + prof.Object(c.R, 2) + "," + spellOp(canonicalOps[c.R.Intn(6)]) + "]"
				default:
					cfg := &SeqCfg{Prof: seqProf, MinOps: 1, MaxOps: 4, MissRate: 30, RootOK: true, ContinueAfterFail: true}
					t = GenSeq(c.R, cfg, V5Opts{NegIdx: true}.Ref()).Patch()
				}
				if c.R.Intn(5) > 0 {
					t = gen.Mutate(c.R, t, prof.Any(c.R))
				}
				judgeDecode(c, t, "mutated-bytes")
			}},
		},
	})
}
