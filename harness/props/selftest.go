package props

import (
	"bytes"
	stdjson "encoding/json"
	"fmt"

	"github.com/evanphx/json-patch/v5/verifharness/core"
	"github.com/evanphx/json-patch/v5/verifharness/gen"
	jr "github.com/evanphx/json-patch/v5/verifharness/jsonref"
	ref "github.com/evanphx/json-patch/v5/verifharness/ref6902"
	"github.com/evanphx/json-patch/v5/verifharness/ref7396"
	"github.com/evanphx/json-patch/v5/verifharness/refenc"
)

type rfc6902Example struct {
	doc, patch, want string // want "" = must fail
}

// RFC 6902 appendix A.
var rfc6902Examples = []rfc6902Example{
	{`{"foo":"bar"}`, `[{"op":"add","path":"/baz","value":"qux"}]`, `{"baz":"qux","foo":"bar"}`},
	{`{"foo":["bar","baz"]}`, `[{"op":"add","path":"/foo/1","value":"qux"}]`, `{"foo":["bar","qux","baz"]}`},
	{`{"baz":"qux","foo":"bar"}`, `[{"op":"remove","path":"/baz"}]`, `{"foo":"bar"}`},
	{`{"foo":["bar","qux","baz"]}`, `[{"op":"remove","path":"/foo/1"}]`, `{"foo":["bar","baz"]}`},
	{`{"baz":"qux","foo":"bar"}`, `[{"op":"replace","path":"/baz","value":"boo"}]`, `{"baz":"boo","foo":"bar"}`},
	{`{"foo":{"bar":"baz","waldo":"fred"},"qux":{"corge":"grault"}}`, `[{"op":"move","from":"/foo/waldo","path":"/qux/thud"}]`, `{"foo":{"bar":"baz"},"qux":{"corge":"grault","thud":"fred"}}`},
	{`{"foo":["all","grass","cows","eat"]}`, `[{"op":"move","from":"/foo/1","path":"/foo/3"}]`, `{"foo":["all","cows","eat","grass"]}`},
	{`{"baz":"qux","foo":["a",2,"c"]}`, `[{"op":"test","path":"/baz","value":"qux"},{"op":"test","path":"/foo/1","value":2}]`, `{"baz":"qux","foo":["a",2,"c"]}`},
	{`{"baz":"qux"}`, `[{"op":"test","path":"/baz","value":"bar"}]`, ``},
	{`{"foo":"bar"}`, `[{"op":"add","path":"/child","value":{"grandchild":{}}}]`, `{"foo":"bar","child":{"grandchild":{}}}`},
	{`{"foo":"bar"}`, `[{"op":"add","path":"/baz","value":"qux","xyz":123}]`, `{"foo":"bar","baz":"qux"}`},
	{`{"foo":"bar"}`, `[{"op":"add","path":"/baz/bat","value":"qux"}]`, ``},
	{`{"/":9,"~1":10}`, `[{"op":"test","path":"/~01","value":10}]`, `{"/":9,"~1":10}`},
	{`{"/":9,"~1":10}`, `[{"op":"test","path":"/~01","value":"10"}]`, ``},
	{`{"foo":["bar"]}`, `[{"op":"add","path":"/foo/-","value":["abc","def"]}]`, `{"foo":["bar",["abc","def"]]}`},
}

// ParsePatch reads a patch text into reference operations (for self-tests and replays).
func ParsePatch(text string) ([]ref.Op, error) {
	v, err := jr.Parse([]byte(text))
	if err != nil || v.K != jr.Arr {
		return nil, fmt.Errorf("not a patch array")
	}
	var ops []ref.Op
	for _, e := range v.A {
		if e.K != jr.Obj {
			return nil, fmt.Errorf("operation is not an object")
		}
		var op ref.Op
		for i, k := range e.Keys {
			x := e.Vals[i]
			switch k {
			case "op":
				op.Kind = x.S
			case "path":
				op.Path = x.S
			case "from":
				op.From = x.S
			case "value":
				op.Value, op.HasValue = x, true
			}
		}
		ops = append(ops, op)
	}
	return ops, nil
}

var rfc6901Doc = `{"foo":["bar","baz"],"":0,"a/b":1,"c%d":2,"e^f":3,"g|h":4,"i\\j":5,"k\"l":6," ":7,"m~n":8}`
var rfc6901Cases = [][2]string{{"", ""}, {"/foo", `["bar","baz"]`}, {"/foo/0", `"bar"`}, {"/", `0`}, {"/a~1b", `1`}, {"/c%d", `2`}, {"/e^f", `3`}, {"/g|h", `4`}, {`/i\j`, `5`}, {`/k"l`, `6`}, {"/ ", `7`}, {"/m~0n", `8`}}

// RFC 7396 appendix A.
var rfc7396Examples = [][3]string{
	{`{"a":"b"}`, `{"a":"c"}`, `{"a":"c"}`},
	{`{"a":"b"}`, `{"b":"c"}`, `{"a":"b","b":"c"}`},
	{`{"a":"b"}`, `{"a":null}`, `{}`},
	{`{"a":"b","b":"c"}`, `{"a":null}`, `{"b":"c"}`},
	{`{"a":["b"]}`, `{"a":"c"}`, `{"a":"c"}`},
	{`{"a":"c"}`, `{"a":["b"]}`, `{"a":["b"]}`},
	{`{"a":{"b":"c"}}`, `{"a":{"b":"d","c":null}}`, `{"a":{"b":"d"}}`},
	{`{"a":[{"b":"c"}]}`, `{"a":[1]}`, `{"a":[1]}`},
	{`["a","b"]`, `["c","d"]`, `["c","d"]`},
	{`{"a":"b"}`, `["c"]`, `["c"]`},
	{`{"a":"foo"}`, `null`, `null`},
	{`{"a":"foo"}`, `"bar"`, `"bar"`},
	{`{"e":null}`, `{"a":1}`, `{"e":null,"a":1}`},
	{`[1,2]`, `{"a":"b","c":null}`, `{"a":"b"}`},
	{`{}`, `{"a":{"bb":{"ccc":null}}}`, `{"a":{"bb":{}}}`},
}

var selfOnce struct {
	done bool
	errs []string
}

// SelfTest checks the reference models against the RFCs' own examples and
// against each other. A failure makes every run inconclusive (exit 2).
func SelfTest() []string {
	if selfOnce.done {
		return selfOnce.errs
	}
	var errs []string
	fail := func(f string, a ...any) { errs = append(errs, fmt.Sprintf(f, a...)) }
	for i, ex := range rfc6902Examples {
		ops, err := ParsePatch(ex.patch)
		if err != nil {
			fail("rfc6902 A.%d: %v", i+1, err)
			continue
		}
		got := ref.Eval(mustParse(ex.doc), ops, ref.Opts{})
		switch {
		case ex.want == "" && got.Doc != nil:
			fail("rfc6902 A.%d: reference succeeds, RFC says error", i+1)
		case ex.want != "" && got.Doc == nil:
			fail("rfc6902 A.%d: reference fails (%s), RFC says %s", i+1, got.Cause, ex.want)
		case ex.want != "" && !jr.Equal(got.Doc, mustParse(ex.want), jr.EqMode{}):
			fail("rfc6902 A.%d: reference gives %s, RFC says %s", i+1, got.Doc, ex.want)
		}
	}
	d := mustParse(rfc6901Doc)
	for _, pc := range rfc6901Cases {
		got := d.Resolve(pc[0])
		want := d
		if pc[1] != "" {
			want = mustParse(pc[1])
		}
		if got == nil || !jr.Equal(got, want, jr.EqMode{}) {
			fail("rfc6901 %q: resolver disagrees", pc[0])
		}
		e := ref.New(d, ref.Opts{})
		if v, c := e.Get(pc[0]); c != ref.OK || !jr.Equal(v, want, jr.EqMode{}) {
			fail("rfc6901 %q: evaluator disagrees", pc[0])
		}
	}
	for i, ex := range rfc7396Examples {
		got := ref7396.Merge(mustParse(ex[0]), mustParse(ex[1]))
		if !jr.Equal(got, mustParse(ex[2]), jr.EqMode{Ordered: true}) {
			fail("rfc7396 example %d: reference gives %s, RFC says %s", i+1, got, ex[2])
		}
	}
	// metamorphic identities that do not involve the library
	r := core.NewRand(7, "selftest", "merge", 0)
	prof := gen.Hostile().With(func(p *gen.Profile) { p.Keys = gen.MergeKeys; p.NoNull = false })
	for i := 0; i < 300; i++ {
		a, b := mustParse(prof.Object(r, 3)), mustParse(prof.Object(r, 3))
		if b.HasNullMember() {
			continue
		}
		p := ref7396.Diff(a, b)
		if !jr.Equal(ref7396.Merge(a, p), b, jr.EqMode{}) {
			fail("ref7396: merge(a, diff(a,b)) != b for a=%s b=%s", a, b)
			break
		}
		if why := ref7396.Minimal(p, a, b); why != "" {
			fail("ref7396: diff not minimal by Minimal(): %s", why)
			break
		}
	}
	// jsonref against encoding/json, refenc.Indent against encoding/json.Indent
	hp := gen.Hostile().With(func(p *gen.Profile) { p.Lone = true; p.Dup = true })
	for i := 0; i < 400; i++ {
		t := hp.Any(r)
		if i%2 == 1 {
			t = gen.Mutate(r, t, hp.Any(r))
		}
		if msg := crossCheckText([]byte(t)); msg != "" {
			fail("%s", msg)
			break
		}
		if jr.Valid([]byte(t)) {
			var cb, ib bytes.Buffer
			stdjson.Compact(&cb, []byte(t))
			stdjson.Indent(&ib, cb.Bytes(), "", "\t")
			if got := refenc.Indent(cb.String(), "\t"); got != ib.String() {
				fail("refenc.Indent disagrees with encoding/json on %q", t)
				break
			}
		}
	}
	selfOnce.done, selfOnce.errs = true, errs
	return errs
}

// crossCheckText: two independent implementations (jsonref, encoding/json)
// must agree on validity of a UTF-8 text. A disagreement is a harness
// defect, never a verdict on the library.
func crossCheckText(b []byte) string {
	if !isUTF8(b) {
		return ""
	}
	if jr.Valid(b) != stdjson.Valid(b) {
		return fmt.Sprintf("oracle disagreement: jsonref.Valid=%v encoding/json.Valid=%v on %q", jr.Valid(b), stdjson.Valid(b), b)
	}
	return ""
}
