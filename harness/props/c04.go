package props

import (
	"bytes"
	"fmt"
	"os"
	"os/exec"
	"strconv"
	"strings"
	"time"

	jpl "github.com/evanphx/json-patch"
	jp "github.com/evanphx/json-patch/v5"
	"github.com/evanphx/json-patch/v5/verifharness/core"
	"github.com/evanphx/json-patch/v5/verifharness/gen"
	"github.com/evanphx/json-patch/v5/verifharness/mon"
	ref "github.com/evanphx/json-patch/v5/verifharness/ref6902"
)

type optSet struct {
	neg, allow, ensure, esc bool
	limit                   int64
	indent                  string
}

func (o optSet) String() string {
	return fmt.Sprintf("neg=%v allowMissing=%v ensure=%v escapeHTML=%v limit=%d indent=%q", o.neg, o.allow, o.ensure, o.esc, o.limit, o.indent)
}

var c04Limits = []int64{0, 1, 7, 1000000}
var c04Indents = []string{"", " ", "\t", "ab"}

func optFromIndex(i int) optSet {
	return optSet{neg: i&1 != 0, allow: i&2 != 0, ensure: i&4 != 0, esc: i&8 != 0, limit: c04Limits[(i>>4)&3], indent: c04Indents[(i>>6)&3]}
}

// robustReport records a panic as a C04 violation.
func robustReport(c *core.Ctx, pkg, api string, pn *mon.Panic, args map[string]any) {
	if pn == nil {
		return
	}
	d := map[string]any{"package": pkg, "api": api, "panic": panicDetail(pn)}
	for k, v := range args {
		d[k] = v
	}
	c.Violation(pkg+":"+api+":"+pn.Sig(), d, robustFindings(pkg, api, pn, args)...)
}

func q(s string) string { return fmt.Sprintf("%q", clip(s, 1500)) }

// applyAllV5: DecodePatch, the accessors and every Apply variant of v5.
func applyAllV5(c *core.Ctx, doc, patch string, o optSet) {
	c.Trace("v5 DecodePatch+Apply*: doc=%s patch=%s options=%s", q(doc), q(patch), o)
	args := map[string]any{"doc": q(doc), "patch": q(patch), "options": o.String()}
	var p jp.Patch
	var err error
	robustReport(c, "v5", "DecodePatch", mon.Try(func() { p, err = jp.DecodePatch([]byte(patch)) }), args)
	c.Eval(1)
	if err != nil || p == nil {
		c.Count("v5:patch-rejected")
		return
	}
	robustReport(c, "v5", "accessors", mon.Try(func() {
		for _, op := range p {
			op.Kind()
			op.Path()
			op.From()
			op.ValueInterface()
		}
	}), args)
	lo := jp.NewApplyOptions()
	lo.SupportNegativeIndices, lo.AllowMissingPathOnRemove, lo.EnsurePathExistsOnAdd, lo.EscapeHTML, lo.AccumulatedCopySizeLimit = o.neg, o.allow, o.ensure, o.esc, o.limit
	var e1, e2, e3, e4 error
	robustReport(c, "v5", "ApplyIndentWithOptions", mon.Try(func() { _, e1 = p.ApplyIndentWithOptions([]byte(doc), o.indent, lo) }), args)
	robustReport(c, "v5", "ApplyWithOptions", mon.Try(func() { _, e2 = p.ApplyWithOptions([]byte(doc), lo) }), args)
	robustReport(c, "v5", "Apply", mon.Try(func() { _, e3 = p.Apply([]byte(doc)) }), args)
	robustReport(c, "v5", "ApplyIndent", mon.Try(func() { _, e4 = p.ApplyIndent([]byte(doc), o.indent) }), args)
	c.Eval(5)
	if e1 == nil {
		c.Count("v5:apply-succeeded")
	} else {
		c.Count("v5:apply-error")
	}
	_, _, _ = e2, e3, e4
}

func applyAllLegacy(c *core.Ctx, doc, patch string, o optSet) {
	c.Trace("legacy DecodePatch+Apply*: doc=%s patch=%s options=%s", q(doc), q(patch), o)
	args := map[string]any{"doc": q(doc), "patch": q(patch), "options": o.String()}
	var p jpl.Patch
	var err error
	robustReport(c, "legacy", "DecodePatch", mon.Try(func() { p, err = jpl.DecodePatch([]byte(patch)) }), args)
	c.Eval(1)
	if err != nil {
		c.Count("legacy:patch-rejected")
		return
	}
	robustReport(c, "legacy", "accessors", mon.Try(func() {
		for _, op := range p {
			op.Kind()
			op.Path()
			op.From()
			op.ValueInterface()
		}
	}), args)
	sn, sl := jpl.SupportNegativeIndices, jpl.AccumulatedCopySizeLimit
	jpl.SupportNegativeIndices, jpl.AccumulatedCopySizeLimit = o.neg, o.limit
	var e1 error
	robustReport(c, "legacy", "Apply", mon.Try(func() { _, e1 = p.Apply([]byte(doc)) }), args)
	robustReport(c, "legacy", "ApplyIndent", mon.Try(func() { p.ApplyIndent([]byte(doc), o.indent) }), args)
	jpl.SupportNegativeIndices, jpl.AccumulatedCopySizeLimit = sn, sl
	c.Eval(2)
	if e1 == nil {
		c.Count("legacy:apply-succeeded")
	} else {
		c.Count("legacy:apply-error")
	}
}

// pairAll: the two-argument functions of both packages.
func pairAll(c *core.Ctx, a, b string, legacy bool) {
	c.Trace("Equal/MergePatch/MergeMergePatches/CreateMergePatch (legacy=%v): a=%s b=%s", legacy, q(a), q(b))
	args := map[string]any{"a": q(a), "b": q(b)}
	A, B := []byte(a), []byte(b)
	if !legacy {
		robustReport(c, "v5", "Equal", mon.Try(func() { jp.Equal(A, B) }), args)
		robustReport(c, "v5", "MergePatch", mon.Try(func() { jp.MergePatch(A, B) }), args)
		robustReport(c, "v5", "MergeMergePatches", mon.Try(func() { jp.MergeMergePatches(A, B) }), args)
		robustReport(c, "v5", "CreateMergePatch", mon.Try(func() { jp.CreateMergePatch(A, B) }), args)
	} else {
		robustReport(c, "legacy", "Equal", mon.Try(func() { jpl.Equal(A, B) }), args)
		robustReport(c, "legacy", "MergePatch", mon.Try(func() { jpl.MergePatch(A, B) }), args)
		robustReport(c, "legacy", "MergeMergePatches", mon.Try(func() { jpl.MergeMergePatches(A, B) }), args)
		robustReport(c, "legacy", "CreateMergePatch", mon.Try(func() { jpl.CreateMergePatch(A, B) }), args)
	}
	c.Eval(4)
	c.Count("pair-calls")
}

// depth-growth family: (depth of the document, depth of the value added at its bottom)
var growthDV = [][2]int{{5000, 5000}, {5000, 5001}, {5001, 5000}, {100, 9999}, {1200, 9000}, {9000, 1500}, {5001, 5000}, {9999, 2}, {9999, 9999}, {9000, 5000}, {9998, 1}}

const growthScripts = 6

func tokenString(idx int) string {
	var sb strings.Builder
	for _, s := range nthSeq(idx, len(tokenAlphabet)) {
		sb.WriteString(tokenAlphabet[s])
	}
	return sb.String()
}

func nested(kind, depth int) string {
	switch kind {
	case 0:
		return strings.Repeat("[", depth) + strings.Repeat("]", depth)
	case 1:
		return strings.Repeat(`{"a":`, depth) + "1" + strings.Repeat("}", depth)
	default:
		return strings.Repeat(`[{"a":`, depth/2) + "null" + strings.Repeat("}]", depth/2)
	}
}

// ---------------------------------------------------------------- chained nesting growth
//
// Nothing bounds the nesting that move/add can assemble: every operation below moves the value built so
// far into the innermost array of the next member, so paths stay short while the nesting grows by <depth>
// per operation.  The result is encoded recursively.  Each case runs in a process of its own (a stack
// overflow is a fatal error that no recover() sees) with Go's default stack limit.
type chainCase struct {
	pkg    string // v5 | legacy
	pieces int
	depth  int
	kind   int // 0 arrays, 1 objects
}

var chainCases = []chainCase{
	{"v5", 30, 1000, 0}, {"legacy", 30, 1000, 0}, {"v5", 12, 9999, 0}, {"v5", 20, 1000, 1}, {"legacy", 12, 1000, 1},
	{"v5", 99, 1000, 0}, {"legacy", 60, 1000, 0},
	{"v5", 700, 1000, 0}, {"legacy", 600, 1000, 0},
}

func buildChain(cc chainCase) (doc, patch string) {
	var piece, tok string
	if cc.kind == 0 {
		piece, tok = strings.Repeat("[", cc.depth)+strings.Repeat("]", cc.depth), "/0"
	} else {
		piece, tok = strings.Repeat(`{"a":`, cc.depth-1)+"{}"+strings.Repeat("}", cc.depth-1), "/a"
	}
	var d, p strings.Builder
	d.WriteByte('{')
	p.WriteByte('[')
	inner := strings.Repeat(tok, cc.depth-1)
	for i := 0; i < cc.pieces; i++ {
		if i > 0 {
			d.WriteByte(',')
		}
		fmt.Fprintf(&d, `"p%d":%s`, i, piece)
		if i+1 < cc.pieces {
			if i > 0 {
				p.WriteByte(',')
			}
			last := "/0"
			if cc.kind == 1 {
				last = "/x"
			}
			fmt.Fprintf(&p, `{"op":"move","from":"/p%d","path":"/p%d%s%s"}`, i, i+1, inner, last)
		}
	}
	d.WriteByte('}')
	p.WriteByte(']')
	return d.String(), p.String()
}

// RunDeepChain is the body of `jpverif deepchain <i>`: one chained-growth case in a process of its own.
func RunDeepChain(i int) int {
	if i < 0 || i >= len(chainCases) {
		return 2
	}
	cc := chainCases[i]
	doc, patch := buildChain(cc)
	var out []byte
	var err, derr error
	pn := mon.Try(func() {
		if cc.pkg == "v5" {
			var p jp.Patch
			if p, derr = jp.DecodePatch([]byte(patch)); derr == nil {
				out, err = p.Apply([]byte(doc))
			}
		} else {
			var p jpl.Patch
			if p, derr = jpl.DecodePatch([]byte(patch)); derr == nil {
				out, err = p.Apply([]byte(doc))
			}
		}
	})
	switch {
	case pn != nil:
		fmt.Printf("RESULT panic %s\n", pn.Sig())
	case derr != nil:
		fmt.Printf("RESULT decode-error %s\n", clip(derr.Error(), 300))
	case err != nil:
		// (the text of such an error can itself be enormous: only its length and head are reported)
		msg := ""
		mon.Try(func() { msg = clip(err.Error(), 300) })
		fmt.Printf("RESULT error %s\n", msg)
	default:
		fmt.Printf("RESULT ok bytes=%d\n", len(out))
	}
	return 0
}

func init() {
	n := func(q, t int) func(core.Tier) int {
		return func(tier core.Tier) int {
			if tier == core.Thorough {
				return t
			}
			return q
		}
	}
	awkward := gen.Hostile().With(func(p *gen.Profile) { p.Lone = true; p.Dup = true; p.WS = 10 })
	seqProf := gen.Hostile()
	depths := []int{100, 1000, 2000, 5000, 9999, 10000, 10001, 100000}
	core.Register(&core.Prop{
		ID:    "C04",
		Title: "No exported entry point panics or hangs, whatever bytes it is given",
		Rule: "Every exported entry point of the v5 module and of the legacy root package (DecodePatch, the Operation accessors, Apply, ApplyIndent, ApplyWithOptions, ApplyIndentWithOptions, Equal, MergePatch, MergeMergePatches, CreateMergePatch) is called under a recover() monitor inside isolated worker processes with a journal (fatal errors and kills are attributed to the case) and a per-case watchdog (a case that exceeds it is re-run alone with five times the budget; only a second time-out is a hang). " +
			"Inputs: state-directed sequences over awkward documents (null root, nulls in arrays, empty names, duplicate names, lone surrogates, root replaced by object/array/null/scalar and then every operation kind), their byte mutations, all sequences of <= 3 tokens out of 42 for each []byte parameter, the option matrix (16 boolean combinations x 4 limits x 4 indents), nesting depths 100..100000 for arrays/objects/mixed, very long strings/numbers/names and index tokens around the integer limits. " +
			"non-trivial = every call; distinct = distinct (entry point group, inputs, options).",
		Assumptions: []string{"non-nil options, patches that came out of DecodePatch, array indices <= 10^4 under EnsurePathExistsOnAdd (stated domain)", "\"never hangs\" is decided in the bounded form: returns within 120 s (alone: 600 s)"},
		Setup:       setPoolMode,
		Finish:      poolFinish,
		Floors: func(t core.Tier, m *core.Merged) []string {
			out := poolFloor(m)
			for _, k := range []string{"v5:apply-succeeded", "v5:apply-error", "v5:patch-rejected", "legacy:apply-succeeded", "legacy:apply-error", "pair-calls"} {
				if m.Counts[k] < 1000 {
					out = append(out, k+" fewer than 1000")
				}
			}
			if m.Counts["depth-growth-cases"] < 40 {
				out = append(out, "depth-growth family incomplete")
			}
			if (t == core.Thorough && m.Counts["depth-cases"] < int64(24*depthVariants)) || m.Counts["depth-cases"] < int64(12*depthVariants) {
				out = append(out, "depth family incomplete")
			}
			return out
		},
		Families: []core.Family{
			{Name: "chained-nesting-growth", Exhaustive: true, Serial: true, Guard: 900 * time.Second, Count: func(core.Tier) int { return len(chainCases) }, Run: func(c *core.Ctx, idx int) {
				cc := chainCases[idx]
				self, _ := os.Executable()
				cmd := exec.Command(self, "deepchain", fmt.Sprint(idx))
				var so, se bytes.Buffer
				cmd.Stdout, cmd.Stderr = &so, &se
				done := make(chan error, 1)
				if err := cmd.Start(); err != nil {
					c.Inconclusive("deepchain child could not be started: " + err.Error())
					return
				}
				go func() { done <- cmd.Wait() }()
				var werr error
				select {
				case werr = <-done:
				case <-time.After(800 * time.Second):
					cmd.Process.Kill()
					<-done
					c.Inconclusive(fmt.Sprintf("deepchain child %d did not finish within 800 s", idx))
					return
				}
				c.Eval(1)
				levels := cc.pieces * cc.depth
				tail := se.String()
				if len(tail) > 600 {
					tail = tail[:600]
				}
				d := map[string]any{"package": cc.pkg, "document": fmt.Sprintf("an object of %d members, each %d nested %s", cc.pieces, cc.depth, []string{"arrays", "objects"}[cc.kind]),
					"patch":        fmt.Sprintf("%d move operations, each moving the value assembled so far to the bottom of the next member (nesting reaches %d levels)", cc.pieces-1, levels),
					"child_stdout": clip(so.String(), 400), "child_stderr_head": tail, "child_exit": fmt.Sprint(werr)}
				switch {
				case werr == nil && strings.HasPrefix(so.String(), "RESULT panic"):
					c.Violation("chain:"+strings.TrimSpace(strings.TrimPrefix(so.String(), "RESULT ")), d)
				case werr == nil && strings.HasPrefix(so.String(), "RESULT"):
					c.Count("chain:returned")
					c.Count("chain:" + strings.Fields(so.String())[1])
				case strings.Contains(se.String(), "stack overflow") || strings.Contains(se.String(), "goroutine stack exceeds"):
					var cands []string
					if levels >= 200000 {
						cands = []string{"F04"}
					}
					c.Violation("fatal:stack-overflow@"+cc.pkg+":Apply-encoding-a-result-nested-by-chained-moves", d, cands...)
				default:
					c.Violation("fatal:process-died@"+cc.pkg+":Apply-chained-moves", d)
				}
				c.Count("chain-cases")
				c.Nontrivial("chain", fmt.Sprint(idx))
			}},
			{Name: "regression-witnesses", Exhaustive: true, Count: func(core.Tier) int { return len(c04Witnesses) }, Run: func(c *core.Ctx, idx int) {
				w := c04Witnesses[idx]
				for oi := 0; oi < 16; oi++ {
					applyAllV5(c, w[0], w[1], optFromIndex(oi))
				}
				applyAllLegacy(c, w[0], w[1], optFromIndex(1))
				pairAll(c, w[0], w[1], false)
				pairAll(c, w[0], w[1], true)
				pairAll(c, w[1], w[0], false)
				pairAll(c, w[1], w[0], true)
				c.Nontrivial("w", w[0], w[1])
			}},
			{Name: "sequences-on-awkward-documents", Count: n(60000, 2000000), Run: func(c *core.Ctx, idx int) {
				o := optFromIndex(c.R.Intn(256))
				cfg := &SeqCfg{Prof: seqProf, ValProf: awkward, MinOps: 1, MaxOps: 8, MissRate: 25, RootOK: true, ContinueAfterFail: true}
				if idx%3 == 0 {
					cfg.Prof = awkward.With(func(p *gen.Profile) { p.Dup = false; p.Lone = false })
				}
				sc := GenSeq(c.R, cfg, V5Opts{NegIdx: o.neg, AllowMissing: o.allow, EnsurePath: o.ensure}.Ref())
				doc := sc.DocText
				if idx%7 == 0 {
					doc = awkward.Any(c.R) // any root, duplicates, lone surrogates
				}
				patch := sc.Patch()
				if idx%5 == 0 {
					// plant a root replacement (object, array, null, scalar) in front
					v := []string{`null`, `{}`, `[]`, `[null]`, `{"a":null}`, `7`, `"s"`, awkward.Root(c.R)}[c.R.Intn(8)]
					k := []string{"add", "replace"}[c.R.Intn(2)]
					patch = PatchText(append([]string{OpText(k, "", "", v, true)}, sc.OpTexts...))
				}
				if idx%11 == 0 {
					// an operation without its optional/required members
					patch = PatchText(append(sc.OpTexts, []string{`{"op":"test","path":""}`, `{"op":"test","path":"/a"}`, `{"op":"remove","path":""}`, `{"op":"copy","from":"","path":""}`, `{"op":"move","from":"/a","path":""}`}[c.R.Intn(5)]))
				}
				applyAllV5(c, doc, patch, o)
				if idx%2 == 0 {
					applyAllLegacy(c, doc, patch, o)
				}
				c.Nontrivial("s", doc, patch, o.String())
				if c.WantSample() {
					c.Sample(map[string]any{"doc": q(doc), "patch": q(patch), "options": o.String()})
				}
			}},
			{Name: "relocation-chains", Count: n(30000, 1000000), Run: func(c *core.Ctx, idx int) {
				// applicable chains of copy/move/add in which earlier destinations and sources are copied and
				// moved into each other: a node shared between two locations becomes a cycle (fatal stack overflow)
				o := optFromIndex(c.R.Intn(256))
				// every operation of a chain is applicable, so AllowMissingPathOnRemove must not matter
				o.ensure, o.limit = false, 0
				legacy := idx%3 == 0
				prof := seqProf.With(func(p *gen.Profile) { p.ScalarBias = 25 })
				if legacy {
					prof = prof.With(func(p *gen.Profile) { p.Keys = gen.PlainKeys })
				}
				sc := GenMotionSeq(c.R, prof, ref.Opts{NegIdx: o.neg, Legacy: legacy}, 12, !legacy)
				c.CountN("relocation-chains:ops", int64(len(sc.Ops)))
				if legacy {
					applyAllLegacy(c, sc.DocText, sc.Patch(), o)
				} else {
					applyAllV5(c, sc.DocText, sc.Patch(), o)
				}
				c.Nontrivial("r", sc.DocText, sc.Patch(), o.String())
			}},
			{Name: "mutated-inputs", Count: n(60000, 2000000), Run: func(c *core.Ctx, idx int) {
				o := optFromIndex(c.R.Intn(256))
				cfg := &SeqCfg{Prof: seqProf, ValProf: awkward, MinOps: 1, MaxOps: 5, MissRate: 25, RootOK: true, ContinueAfterFail: true}
				sc := GenSeq(c.R, cfg, V5Opts{NegIdx: o.neg}.Ref())
				doc, patch := sc.DocText, sc.Patch()
				switch c.R.Intn(3) {
				case 0:
					doc = gen.Mutate(c.R, doc, patch)
				case 1:
					patch = gen.Mutate(c.R, patch, doc)
				default:
					doc, patch = gen.Mutate(c.R, doc, patch), gen.Mutate(c.R, patch, doc)
				}
				if o.ensure && strings.ContainsAny(patch, "23456789") && len(patch) > 0 {
					// keep array indices under EnsurePathExistsOnAdd within the stated domain (<= 10^4):
					// mutation may splice digits together
					if hasLongDigits(patch, 4) {
						o.ensure = false
					}
				}
				applyAllV5(c, doc, patch, o)
				applyAllLegacy(c, doc, patch, o)
				c.Nontrivial("m", doc, patch, o.String())
			}},
			{Name: "pairs-generated-and-mutated", Count: n(60000, 2000000), Run: func(c *core.Ctx, idx int) {
				a := awkward.Any(c.R)
				var b string
				switch c.R.Intn(4) {
				case 0:
					b = a
				case 1:
					b = awkward.Respell(c.R, mustParse(a), true)
				case 2:
					b = genMergePatchFor(c.R, awkward, mustParse(a))
				default:
					b = awkward.Any(c.R)
				}
				switch c.R.Intn(5) {
				case 0:
					a = gen.Mutate(c.R, a, b)
				case 1:
					b = gen.Mutate(c.R, b, a)
				case 2:
					a = gen.Mutate(c.R, a, b)
					b = a
				}
				pairAll(c, a, b, false)
				pairAll(c, a, b, true)
				c.Nontrivial("p", a, b)
				if c.WantSample() {
					c.Sample(map[string]any{"a": q(a), "b": q(b)})
				}
			}},
			{Name: "tokens-exhaustive", Exhaustive: true, Count: func(t core.Tier) int {
				if t == core.Thorough {
					return powSum(len(tokenAlphabet), 3)
				}
				return powSum(len(tokenAlphabet), 2) * 6
			}, Run: func(c *core.Ctx, idx int) {
				var x string
				if c.Tier == core.Thorough {
					x = tokenString(idx)
				} else {
					// all <= 2-token strings, plus a fixed stride through the 3-token ones
					base := powSum(len(tokenAlphabet), 2)
					if idx < base {
						x = tokenString(idx)
					} else {
						x = tokenString(base + (idx-base)*(len(tokenAlphabet)*len(tokenAlphabet)*len(tokenAlphabet)/(5*base)))
					}
				}
				for _, other := range []string{x, `{"a":1}`, `[{"a":null}]`} {
					pairAll(c, x, other, false)
					pairAll(c, other, x, false)
					pairAll(c, x, other, true)
					pairAll(c, other, x, true)
				}
				o := optFromIndex(idx % 16)
				applyAllV5(c, x, `[{"op":"add","path":"/a","value":1}]`, o)
				applyAllV5(c, `{"a":1}`, x, o)
				applyAllV5(c, `{"a":1}`, `[{"op":"add","path":"/b","value":`+x+`},{"op":"test","path":"/b","value":`+x+`}]`, o)
				applyAllLegacy(c, x, `[{"op":"add","path":"/a","value":1}]`, o)
				applyAllLegacy(c, `{"a":1}`, x, o)
				applyAllLegacy(c, `{"a":1}`, `[{"op":"add","path":"/b","value":`+x+`},{"op":"test","path":"/b","value":`+x+`}]`, o)
				c.Nontrivial("t", x)
			}},
			{Name: "option-matrix", Exhaustive: true, Count: func(core.Tier) int { return 256 * len(matrixCases) }, Run: func(c *core.Ctx, idx int) {
				o := optFromIndex(idx % 256)
				mc := matrixCases[idx/256]
				applyAllV5(c, mc[0], mc[1], o)
				applyAllLegacy(c, mc[0], mc[1], o)
				c.Nontrivial("o", mc[0], mc[1], o.String())
			}},
			{Name: "depth", Exhaustive: true, Guard: 400 * time.Second, Count: func(t core.Tier) int {
				if t == core.Thorough {
					return len(depths) * 3 * depthVariants
				}
				return 4 * 3 * depthVariants
			}, Run: func(c *core.Ctx, idx int) {
				variant := idx % depthVariants
				idx /= depthVariants
				d := depths[idx/3]
				if c.Tier != core.Thorough {
					d = []int{100, 500, 1500, 3000}[idx/3]
				}
				x := nested(idx%3, d)
				o := optFromIndex(9)
				deepPath := strings.Repeat("/0", 50)
				if idx%3 == 1 {
					deepPath = strings.Repeat("/a", 50)
				}
				// one group of calls per case: the cost of some of them is
				// legitimately quadratic in the nesting depth
				switch variant {
				case 0:
					applyAllV5(c, x, `[]`, o)
				case 1:
					applyAllV5(c, x, `[{"op":"test","path":"","value":`+x+`}]`, optSet{neg: true, esc: true})
				case 2:
					applyAllV5(c, x, `[{"op":"copy","from":"","path":"`+deepPath+`/x"},{"op":"remove","path":"`+deepPath+`"}]`, o)
				case 3:
					applyAllV5(c, `{}`, `[{"op":"add","path":"/a","value":`+x+`},{"op":"test","path":"/a","value":`+x+`}]`, optSet{neg: true, esc: true})
				case 4:
					applyAllLegacy(c, x, `[{"op":"test","path":"","value":`+x+`}]`, o)
				case 5:
					pairAll(c, x, x, false)
				case 6:
					pairAll(c, x, x, true)
				case 7:
					pairAll(c, `{"k":1}`, x, false)
					pairAll(c, x, `{"k":null}`, false)
				case 8:
					pairAll(c, `{"k":1}`, x, true)
					pairAll(c, x, `{"k":null}`, true)
				}
				c.Count("depth-cases")
				c.Nontrivial("d", fmt.Sprint(idx), fmt.Sprint(variant))
			}},
			{Name: "null-then-descend", Exhaustive: true, Count: func(core.Tier) int { return 2 * 2 * 5 * 8 * 3 * 2 }, Run: func(c *core.Ctx, idx int) {
				// a null stored by the patch (add / replace), relocated (copy, move, twice, or not at all), and then an
				// operation whose path or from goes beneath it: a stored null, a copied null and a decoded null are
				// three different node states, and each must simply be "not a container"
				legacy := idx%2 == 1
				idx /= 2
				store := []string{"add", "replace"}[idx%2]
				idx /= 2
				reloc := idx % 5
				idx /= 5
				fin := idx % 8
				idx /= 8
				child := []string{"/c", "/0", "/-"}[idx%3]
				idx /= 3
				doc := []string{`{"a":1,"q":{"r":[null]}}`, `[1,{"r":null}]`}[idx%2]
				p, q, q2 := "/a", "/b", "/q/n"
				if idx%2 == 1 {
					p, q, q2 = "/0", "/-", "/1/n"
				}
				ops := []string{OpText(store, p, "", "null", true)}
				at := p
				switch reloc {
				case 1:
					ops = append(ops, OpText("copy", q, p, "", false))
					at = q
				case 2:
					ops = append(ops, OpText("move", q, p, "", false))
					at = q
				case 3:
					ops = append(ops, OpText("copy", q, p, "", false), OpText("copy", q2, q, "", false))
					at = q2
				case 4:
					ops = append(ops, OpText("copy", q2, p, "", false), OpText("move", q, q2, "", false))
					at = q
				}
				if at == "/-" {
					at = "/2"
					if reloc == 2 || reloc == 4 {
						at = "/1"
					}
				}
				switch fin {
				case 0:
					ops = append(ops, OpText("add", at+child, "", "1", true))
				case 1:
					ops = append(ops, OpText("replace", at+child, "", "1", true))
				case 2:
					ops = append(ops, OpText("remove", at+child, "", "", false))
				case 3:
					ops = append(ops, OpText("test", at+child, "", "null", true))
				case 4:
					ops = append(ops, OpText("copy", at+child, "/a", "", false))
				case 5:
					ops = append(ops, OpText("move", "/zz", at+child, "", false))
				case 6:
					ops = append(ops, OpText("copy", "/zz", at+child+"/deeper", "", false))
				case 7:
					ops = append(ops, OpText("add", at+child+"/x", "", "{}", true), OpText("test", at, "", "null", true))
				}
				for _, oi := range []int{1, 3, 5, 9} {
					o := optFromIndex(oi)
					if legacy {
						applyAllLegacy(c, doc, PatchText(ops), o)
					} else {
						applyAllV5(c, doc, PatchText(ops), o)
					}
				}
				c.Count("null-then-descend:cases")
				c.Nontrivial("n", doc, PatchText(ops), fmt.Sprint(legacy))
			}},
			{Name: "depth-growth", Exhaustive: true, Guard: 400 * time.Second, Count: func(t core.Tier) int {
				if t == core.Thorough {
					return len(growthDV) * 2 * growthScripts * 2
				}
				return 4 * 2 * growthScripts * 2
			}, Run: func(c *core.Ctx, idx int) {
				// operations assemble a value that is nested deeper than the decoder's limit of 10 000
				// (a deep value added at the bottom of a deep document) and then copy it, move it,
				// descend into the copy, test it, merge it: each part was valid where it came from,
				// the whole is only ever seen by the code that re-reads text the library produced itself
				legacy := idx%2 == 1
				idx /= 2
				script := idx % growthScripts
				idx /= growthScripts
				kind := idx % 2
				dv := growthDV[idx/2]
				D, V := dv[0], dv[1]
				doc, val := nested(kind, D), nested(kind, V)
				tok := "/0"
				app := "/-"
				if kind == 1 {
					tok, app = "/a", "/zz"
					doc = strings.Repeat(`{"a":`, D) + "{}" + strings.Repeat("}", D)
				}
				bottom := strings.Repeat(tok, D)
				if kind == 0 {
					bottom = strings.Repeat(tok, D-1) // the innermost of D nested arrays
				}
				addDeep := OpText("add", bottom+app, "", val, true)
				o := optSet{neg: true, esc: true}
				var ops []string
				switch script {
				case 0: // copy an ancestor of the deep place to a sibling, then descend into the copy
					ops = []string{addDeep, OpText("copy", app, tok, "", false), OpText("add", app+strings.Repeat(tok, 3)+app, "", "1", true)}
				case 1: // copy the whole document into itself, then test inside the copy
					ops = []string{addDeep, OpText("copy", app, "", "", false), OpText("test", app+tok+tok, "", "1", true)}
				case 2: // move the deep subtree up, remove inside it
					ops = []string{addDeep, OpText("move", app, strings.Repeat(tok, 5), "", false), OpText("remove", app+tok+tok, "", "", false)}
				case 3: // grow twice, then compare the whole document
					ops = []string{addDeep, OpText("add", bottom+app+strings.Repeat(tok, V)+app, "", val, true), OpText("test", "", "", `{"x":1}`, true)}
				case 4: // copy of a copy, replace inside
					ops = []string{addDeep, OpText("copy", app, tok, "", false), OpText("copy", app+tok+app, app, "", false), OpText("replace", app+tok+tok, "", "null", true)}
				case 5: // the merge functions on documents whose combination is too deep
					pv := strings.Repeat(`{"a":`, D) + `{"zz":` + val + "}" + strings.Repeat("}", D)
					if kind == 0 {
						pv = `{"k":` + doc + `,"v":` + val + "}"
					}
					pairAll(c, doc, pv, legacy)
					pairAll(c, pv, doc, legacy)
					var out []byte
					if !legacy {
						robustReport(c, "v5", "MergePatch", mon.Try(func() { out, _ = jp.MergePatch([]byte(`{"a":`+doc+`}`), []byte(`{"a":`+pv+`}`)) }), map[string]any{"depth": D, "value_depth": V})
					}
					if out != nil {
						pairAll(c, string(out), string(out), legacy)
						applyAllV5(c, string(out), `[{"op":"test","path":"/a","value":1}]`, o)
					}
				}
				if ops != nil {
					if legacy {
						applyAllLegacy(c, doc, PatchText(ops), o)
					} else {
						applyAllV5(c, doc, PatchText(ops), o)
						// and once more on what the library returned
						var out []byte
						robustReport(c, "v5", "Apply", mon.Try(func() {
							if p, err := jp.DecodePatch([]byte(PatchText(ops[:1]))); err == nil {
								out, _ = p.Apply([]byte(doc))
							}
						}), map[string]any{"depth": D, "value_depth": V})
						if out != nil {
							applyAllV5(c, string(out), PatchText(ops[1:]), o)
							pairAll(c, string(out), doc, false)
						}
					}
				}
				c.Count("depth-growth-cases")
				c.Nontrivial("g", fmt.Sprint(kind, D, V, script, legacy))
			}},
			{Name: "long-tokens-and-overflow", Count: n(3000, 60000), Run: func(c *core.Ctx, idx int) {
				big := strings.Repeat("9", 1+c.R.Intn(400))
				idxTok := []string{"9223372036854775807", "9223372036854775808", "-9223372036854775808", "-9223372036854775809", "18446744073709551616", big, "-" + big, "4294967296", "2147483648", "+1", "00", "-0", " 1", "1 ", "0x10", "1e3", "１"}[c.R.Intn(17)]
				long := strings.Repeat([]string{"a", "é", "<", `\"`, `\\`, gen.U("d83d")}[c.R.Intn(6)], 1+c.R.Intn(20000))
				doc := `{"a":[1,2,3],"` + long + `":"` + long + `","n":` + big + `.` + big + `e` + big[:1+(len(big)-1)%5] + `}`
				o := optFromIndex(c.R.Intn(256))
				// index tokens beyond 10^4 are outside the stated domain under EnsurePathExistsOnAdd (the padding is
				// quadratic) - but only those that are indices at all: a digit string that does not fit an int, or
				// a token that is not a number, cannot ask for padding and must simply be refused or be a name
				if _, aerr := strconv.Atoi(strings.TrimSpace(idxTok)); aerr == nil {
					o.ensure = false
				}
				kind := allKinds[c.R.Intn(6)]
				base := "/a/"
				if c.R.Intn(3) == 0 {
					base = "/zz/" // a parent that does not exist (created under EnsurePathExistsOnAdd)
				}
				if c.R.Intn(4) == 0 {
					idxTok += "/b"
				}
				patch := PatchText([]string{OpText(kind, base+idxTok, base+idxTok, "1", kind == "add" || kind == "replace" || kind == "test")})
				applyAllV5(c, doc, patch, o)
				applyAllLegacy(c, doc, patch, o)
				pairAll(c, doc, doc, idx%2 == 0)
				pairAll(c, doc, `{"n":null,"`+long+`":1}`, idx%2 == 0)
				c.Nontrivial("l", doc, patch)
			}},
		},
	})
}

const depthVariants = 9

func hasLongDigits(s string, n int) bool {
	run := 0
	for i := 0; i < len(s); i++ {
		if s[i] >= '0' && s[i] <= '9' {
			run++
			if run > n {
				return true
			}
		} else {
			run = 0
		}
	}
	return false
}

// Inputs that made the unrepaired tree panic (see known_findings.jsonl,
// status "fixed"); kept as ordinary regression cases.
var c04Witnesses = [][2]string{
	{`[null]`, `[null]`},
	{`null`, `null`},
	{`{`, `{`},
	{`[]`, `[A]`},
	{`1 2`, `1 2`},
	{`{"a":[null]}`, `[{"op":"test","path":"/a","value":[null]}]`},
	{`{}`, `[{"op":"replace","path":"","value":null},{"op":"add","path":"/a","value":1}]`},
	{`{}`, `[{"op":"replace","path":"","value":null},{"op":"test","path":"","value":null}]`},
	{`{}`, `[{"op":"replace","path":"","value":null},{"op":"copy","from":"","path":"/a"}]`},
	{`{}`, `[{"op":"replace","path":"","value":null},{"op":"remove","path":"/0"}]`},
	{`{}`, `[{"op":"add","path":"","value":null},{"op":"add","path":"/a","value":1}]`},
	{`{"a":1}`, `[{"op":"test","path":""}]`},
	{`{"a":1}`, `[{"op":"replace","path":""}]`},
	{`{"a":null}`, `[{"op":"add","path":"/b","value":null},{"op":"test","path":"","value":{"a":null,"b":null}}]`},
	{` [1]`, `[{"op":"add","path":"/-","value":null},{"op":"test","path":"/1","value":null}]`},
	{`{"a":[{"b":null}]}`, `{"a":[{"b":null}]}`},
	{`[{"a":null}]`, `[null]`},
	{``, ``},
	{`{}`, ``},
	{`{"a":1}`, `[{"op":"move","path":"//zz","from":"/"},{"op":"copy","path":"/","from":"/"}]`},
	{`{"a":1,"":2}`, `[{"op":"move","path":"//zz","from":"/"},{"op":"copy","path":"/c","from":"/"},{"op":"test","path":"/","value":1}]`},
	{`[1,[2]]`, `[{"op":"move","path":"//0","from":"/"},{"op":"copy","path":"/-","from":"/"}]`},
}

var matrixCases = [][2]string{
	{`{"a":{"b":[1,2,{"c":"<&>"}]},"d":null}`, `[{"op":"copy","from":"/a","path":"/e"},{"op":"remove","path":"/zz"},{"op":"add","path":"/x/y/0/z","value":[null]},{"op":"test","path":"/a/b/-1","value":{"c":"<&>"}},{"op":"move","from":"/a/b/0","path":"/a/b/-1"},{"op":"replace","path":"/d","value":{"k":"<"}}]`},
	{`[[1,2],[3]]`, `[{"op":"remove","path":"/5"},{"op":"remove","path":"/-1"},{"op":"add","path":"/0/-","value":"x"},{"op":"copy","from":"/0","path":"/-"},{"op":"add","path":"/3/1/a","value":1}]`},
	{`{"a":1}`, `[{"op":"add","path":"","value":[1]},{"op":"add","path":"/5/a","value":2},{"op":"replace","path":"","value":{"z":null}},{"op":"copy","from":"","path":"/y"}]`},
}
