package props

import (
	jp "github.com/evanphx/json-patch/v5"
	"github.com/evanphx/json-patch/v5/verifharness/core"
	"github.com/evanphx/json-patch/v5/verifharness/gen"
	jr "github.com/evanphx/json-patch/v5/verifharness/jsonref"
	"github.com/evanphx/json-patch/v5/verifharness/ref7396"
)

type composeFns struct {
	mmp   mergeCall
	merge mergeCall
	tag   string
}

var v5Compose = composeFns{jp.MergeMergePatches, jp.MergePatch, ""}

// judgeCompose checks the composition law on (P1, P2) with several documents.
func judgeCompose(c *core.Ctx, f composeFns, p1T, p2T string, docs []string) {
	p1T, p2T = wsWrap(c, p1T), wsWrap(c, p2T) // (a file that starts with a blank line, an indented here-document)
	p1, p2 := mustParse(p1T), mustParse(p2T)
	mb, err, pn := callMerge(f.mmp, p1T, p2T)
	c.Eval(1)
	d := map[string]any{"p1": clip(p1T, 1200), "p2": clip(p2T, 1200), "combined": clip(string(mb), 1200), "error": errText(err)}
	if p1.K != jr.Obj || p1.HasDup() || p2.HasDup() {
		c.Count("out_of_domain")
		return
	}
	if pn != nil {
		d["panic"] = panicDetail(pn)
		c.Violation(f.tag+pn.Sig(), d)
		return
	}
	if !ref7396.Compatible(p1, p2) {
		c.Count("incompatible-pair:not-compared")
		return
	}
	c.Count("in_domain")
	if err != nil {
		c.Violation(f.tag+"MergeMergePatches-fails-on-wellformed-patches", d)
		return
	}
	m, perr := jr.Parse(mb)
	if perr != nil {
		c.Violation(f.tag+"combined-patch-not-json", d)
		return
	}
	want := ref7396.Compose(p1, p2)
	d["reference_combined"] = clip(want.String(), 1200)
	if !jr.Equal(want, m, jr.EqMode{}) {
		sig := "combined-patch-differs-from-reference-composition"
		if p2.K != jr.Obj {
			sig += ":non-object-p2-not-returned"
		}
		c.Violation(f.tag+sig, d)
		return
	}
	for _, dT := range docs {
		doc := mustParse(dT)
		if doc.K == jr.Null || doc.HasDup() {
			continue
		}
		seq := ref7396.Merge(ref7396.Merge(doc, p1), p2)
		comb := ref7396.Merge(doc, m)
		c.Eval(1)
		d["document"] = clip(dT, 1200)
		d["sequential"] = clip(seq.String(), 1200)
		if !jr.Equal(seq, comb, jr.EqMode{}) {
			d["combined_applied"] = clip(comb.String(), 1200)
			c.Violation(f.tag+"composition-law-fails(reference-application)", d)
			return
		}
		// and with the library's own MergePatch on both sides
		s1, e1, pn1 := callMerge(f.merge, dT, p1T)
		if pn1 != nil || e1 != nil {
			continue // MergePatch defects are C02's
		}
		if string(s1) == "null" || len(s1) == 0 {
			continue // intermediate document is null: outside MergePatch's domain
		}
		s2, e2, pn2 := callMerge(f.merge, string(s1), p2T)
		lc, e3, pn3 := callMerge(f.merge, dT, string(mb))
		c.Eval(3)
		if pn2 != nil || pn3 != nil || e2 != nil || e3 != nil {
			continue
		}
		g1, x1 := jr.Parse(s2)
		g2, x2 := jr.Parse(lc)
		if x1 != nil || x2 != nil || !jr.Equal(g1, g2, jr.EqMode{}) {
			d["library_sequential"] = clip(string(s2), 1200)
			d["library_combined_applied"] = clip(string(lc), 1200)
			c.Violation(f.tag+"composition-law-fails(library-application)", d)
			return
		}
		c.Count("law:ok")
	}
	if len(p1.Keys) > 0 && p2.K == jr.Obj && len(p2.Keys) > 0 {
		c.Nontrivial(f.tag, p1T, p2T)
		// do the two patches collide somewhere?
		for _, k := range p2.Keys {
			if v, _ := p1.Get(k); v != nil {
				c.Count("shape:colliding-members")
				break
			}
		}
	}
	if p2.K != jr.Obj {
		c.Count("shape:non-object-p2")
	}
	if c.WantSample() {
		c.Sample(d)
	}
}

// docWithEveryKey builds a document that has a value at every member name the patches mention.
func docWithEveryKey(c *core.Ctx, prof *gen.Profile, ps ...*jr.Value) string {
	out := &jr.Value{K: jr.Obj}
	var fill func(dst, p *jr.Value, depth int)
	fill = func(dst, p *jr.Value, depth int) {
		if p.K != jr.Obj {
			return
		}
		for i, k := range p.Keys {
			cur, _ := dst.Get(k)
			if cur == nil {
				if p.Vals[i].K == jr.Obj && depth < 4 && c.R.Intn(3) > 0 {
					cur = &jr.Value{K: jr.Obj}
				} else {
					cur = mustParse(prof.Value(c.R, 1))
				}
				dst.Keys = append(dst.Keys, k)
				dst.Vals = append(dst.Vals, cur)
			}
			if cur.K == jr.Obj {
				fill(cur, p.Vals[i], depth+1)
			}
		}
	}
	for _, p := range ps {
		fill(out, p, 0)
	}
	return out.String()
}

func init() {
	n := func(q, t int) func(core.Tier) int {
		return func(tier core.Tier) int {
			if tier == core.Thorough {
				return t
			}
			return q
		}
	}
	// a small shared key space so that the two patches collide
	prof := gen.Hostile().With(func(p *gen.Profile) {
		p.Keys = []string{"a", "b", "c", "x<y", "", "a~1b", "\x7f\x01"}
		p.Width = 3
		p.ScalarBias = 35
	})
	// names that differ only by letter case, Unicode folding, normalisation, width or a trailing character: different
	// members all the same
	near := gen.Hostile().With(func(p *gen.Profile) {
		p.Keys = gen.NearMissKeys
		p.Width = 4
		p.ScalarBias = 45
	})
	core.Register(&core.Prop{
		ID:    "C07",
		Title: "MergeMergePatches composes two merge patches (v5)",
		Rule: "P1 (object) and P2 are generated over a shared small key space so that they collide; pairs violating the compatibility condition are counted but not compared. The combined patch must equal the reference composition (deletions of both kept, later value wins, non-object P2 returned as is), " +
			"and for several documents D (empty, one holding every mentioned key, random ones) merge(merge(D,P1),P2) must equal merge(D,combined), applied both by the RFC 7396 reference and by the library's MergePatch. Plus all pairs of the object universe (exhaustive). " +
			"non-trivial = compatible pair of non-empty object patches; distinct = distinct (P1 text, P2 text).",
		Assumptions: []string{"ref7396 Merge/Compose/Compatible are correct", "incompatible pairs cannot be expressed as one RFC 7396 patch and are not compared (stated domain)"},
		Setup:       setPoolMode,
		Finish:      poolFinish,
		Floors: func(t core.Tier, m *core.Merged) []string {
			out := poolFloor(m)
			if m.Counts["law:ok"] < 20000 || m.Counts["shape:colliding-members"] < 3000 || m.Counts["shape:non-object-p2"] < 100 {
				out = append(out, "law / colliding pairs / non-object P2 exercised too rarely")
			}
			return out
		},
		Families: []core.Family{
			{Name: "universe-pairs", Exhaustive: true, Count: func(core.Tier) int { return universeObjN() * universeN() }, Run: func(c *core.Ctx, idx int) {
				p1, p2 := universeObjs[idx/len(universe)], universe[idx%len(universe)]
				judgeCompose(c, v5Compose, p1, p2, []string{`{}`, `{"a":{"a":{"a":5,"b":6},"b":7},"b":{"c":8}}`, `{"a":[1],"b":"s"}`})
			}},
			{Name: "patches-sharing-a-deep-path", Exhaustive: true, Count: func(core.Tier) int { return len(deepDepths) }, Run: func(c *core.Ctx, idx int) {
				d := deepDepths[idx]
				if c.Tier != core.Thorough && d > 1025 && d != 2000 && d != 5001 {
					return // (three merges and a composition per document, each quadratic in the depth)
				}
				p1 := deepWrap(d, `{"x":1,"y":{"z":2,"q":null},"t":"s"}`)
				p2 := deepWrap(d, `{"y":{"w":3,"z":null},"k":null,"n":{"m":null}}`)
				docs := []string{deepWrap(d, `{"x":0,"k":5,"y":{"q":1,"w":0}}`), `{}`, deepWrap(d/2+1, `7`)}
				judgeCompose(c, v5Compose, p1, p2, docs)
				c.Count("deep:cases")
			}},
			{Name: "colliding-patches", Count: n(40000, 1000000), Run: func(c *core.Ctx, idx int) {
				p1T := prof.Object(c.R, 1+c.R.Intn(3))
				var p2T string
				switch c.R.Intn(10) {
				case 0:
					p2T = prof.Any(c.R)
				case 1, 2, 3:
					p2T = genMergePatchFor(c.R, prof, mustParse(p1T))
				default:
					p2T = prof.Object(c.R, 1+c.R.Intn(3))
				}
				docs := []string{`{}`, docWithEveryKey(c, prof, mustParse(p1T), mustParse(p2T)), prof.Any(c.R), prof.Object(c.R, 3)}
				judgeCompose(c, v5Compose, p1T, p2T, docs)
			}},
			{Name: "names-that-differ-by-case-folding-or-normalisation", Count: n(12000, 300000), Run: func(c *core.Ctx, idx int) {
				p1T := near.Object(c.R, 1+c.R.Intn(2))
				p2T := near.Object(c.R, 1+c.R.Intn(2))
				if c.R.Intn(3) == 0 {
					p2T = genMergePatchFor(c.R, near, mustParse(p1T))
				}
				docs := []string{`{}`, docWithEveryKey(c, near, mustParse(p1T), mustParse(p2T)), near.Object(c.R, 2)}
				judgeCompose(c, v5Compose, p1T, p2T, docs)
				c.Count("near-miss-names:cases")
			}},
		},
	})
}
