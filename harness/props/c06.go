package props

import (
	jp "github.com/evanphx/json-patch/v5"
	"github.com/evanphx/json-patch/v5/verifharness/core"
	"github.com/evanphx/json-patch/v5/verifharness/gen"
	jr "github.com/evanphx/json-patch/v5/verifharness/jsonref"
	"github.com/evanphx/json-patch/v5/verifharness/mon"
)

type equalFn func(a, b []byte) bool

func callEqual(f equalFn, a, b string) (res bool, pn *mon.Panic) {
	pn = mon.Try(func() { res = f([]byte(a), []byte(b)) })
	return
}

// refEqual: the reference answer; decided=false when the pair is outside the
// comparing domain (numerically equal numbers spelled differently, lone
// surrogates, duplicate member names, ill-formed UTF-8).
func refEqual(aT, bT string) (equal, decided bool, why string) {
	a, ea := jr.Parse([]byte(aT))
	b, eb := jr.Parse([]byte(bT))
	if !isUTF8([]byte(aT)) || !isUTF8([]byte(bT)) {
		return false, false, "ill-formed UTF-8"
	}
	if ea != nil || eb != nil {
		return false, true, ""
	}
	if a.HasDup() || b.HasDup() {
		return false, false, "duplicate member names"
	}
	if a.HasLone() || b.HasLone() {
		return false, false, "lone surrogate"
	}
	spell := false
	eq := jr.Equal(a, b, jr.EqMode{SpellFlag: &spell})
	if spell {
		return false, false, "numerically equal numbers spelled differently"
	}
	return eq, true, ""
}

func judgeEqual(c *core.Ctx, f equalFn, tag, aT, bT, kind string) {
	want, decided, why := refEqual(aT, bT)
	got, pn := callEqual(f, aT, bT)
	c.Eval(1)
	d := map[string]any{"a": clip(aT, 1500), "b": clip(bT, 1500), "library": got, "reference": want, "kind": kind}
	if pn != nil {
		d["panic"] = panicDetail(pn)
		c.Violation(tag+pn.Sig(), d)
		return
	}
	if !decided {
		c.Count("out_of_domain")
		c.Count("ood:" + why)
		// The value is not compared here, but the laws hold for every pair of well-formed
		// texts: the answer does not depend on the order of the arguments, and a
		// well-formed text equals itself.
		if why != "ill-formed UTF-8" {
			back, pn2 := callEqual(f, bT, aT)
			c.Eval(1)
			if pn2 == nil && back != got {
				c.Violation(tag+"not-symmetric:"+kind+":"+why, d)
				return
			}
			for _, t := range []string{aT, bT} {
				if self, pn3 := callEqual(f, t, t); pn3 == nil && !self {
					d["text"] = clip(t, 1500)
					c.Violation(tag+"not-reflexive:"+kind+":"+why, d)
					return
				}
			}
			c.Count("laws-on-undecided-pairs")
		}
		return
	}
	c.Count("in_domain")
	if got != want {
		if want {
			c.Violation(tag+"equal-values-reported-unequal:"+kind, d)
		} else {
			c.Violation(tag+"unequal-or-malformed-reported-equal:"+kind, d)
		}
		return
	}
	// symmetry
	back, pn2 := callEqual(f, bT, aT)
	c.Eval(1)
	if pn2 != nil {
		d["panic"] = panicDetail(pn2)
		c.Violation(tag+"swapped:"+pn2.Sig(), d)
		return
	}
	if back != got {
		c.Violation(tag+"not-symmetric:"+kind, d)
		return
	}
	c.Count("agree:" + kind)
	if want {
		c.Count("agree:true")
	} else {
		c.Count("agree:false")
	}
	if aT != bT {
		c.Nontrivial(tag, aT, bT)
	}
	if c.WantSample() {
		c.Sample(d)
	}
}

func init() {
	n := func(q, t int) func(core.Tier) int {
		return func(tier core.Tier) int {
			if tier == core.Thorough {
				return t
			}
			return q
		}
	}
	prof := gen.Hostile().With(func(p *gen.Profile) { p.ScalarBias = 35 })
	core.Register(&core.Prop{
		ID:    "C06",
		Title: "Equal decides structural equality of JSON texts (v5)",
		Rule: "Equal(a,b) of the real library is compared with an independent deep comparison (false when either side is ill-formed). Pairs: equal by construction (member shuffles, whitespace, re-escaped strings incl. surrogate pairs), differing at exactly one point, null roots, nulls in arrays, scalars at the root, " +
			"ill-formed on one or both sides (incl. identical ill-formed texts and trailing data), triples for transitivity, and all ordered pairs of a fixed universe (exhaustive). Every pair is also asked in the other order (symmetry). non-trivial = decided pair of different texts; distinct = distinct (a text, b text).",
		Assumptions: []string{"jsonref parser/Equal are correct (cross-checked with encoding/json on every text)", "not compared: numerically equal numbers with different spellings, lone surrogates, duplicate member names, ill-formed UTF-8"},
		Setup:       setPoolMode,
		Finish:      poolFinish,
		Floors: func(t core.Tier, m *core.Merged) []string {
			out := poolFloor(m)
			for _, k := range []string{"agree:equal-by-construction", "agree:one-point-difference", "agree:malformed", "agree:identical-malformed", "agree:true", "agree:false", "transitivity:checked"} {
				if m.Counts[k] < 1000 {
					out = append(out, k+" fewer than 1000")
				}
			}
			return out
		},
		Families: []core.Family{
			{Name: "universe-pairs", Exhaustive: true, Count: func(core.Tier) int { return universeN() * universeN() }, Run: func(c *core.Ctx, idx int) {
				judgeEqual(c, jp.Equal, "", universe[idx/len(universe)], universe[idx%len(universe)], "universe")
			}},
			{Name: "equal-by-construction", Count: n(50000, 1000000), Run: func(c *core.Ctx, idx int) {
				aT := prof.Any(c.R)
				a := mustParse(aT)
				bT := prof.Respell(c.R, a, true)
				if msg := crossCheckText([]byte(bT)); msg != "" {
					c.Inconclusive(msg)
					return
				}
				judgeEqual(c, jp.Equal, "", aT, bT, "equal-by-construction")
			}},
			{Name: "one-point-difference", Count: n(50000, 1000000), Run: func(c *core.Ctx, idx int) {
				aT := prof.Any(c.R)
				a := mustParse(aT)
				b := prof.MutateOnePoint(c.R, a)
				judgeEqual(c, jp.Equal, "", aT, prof.Respell(c.R, b, true), "one-point-difference")
			}},
			{Name: "names-that-differ-by-case-folding-or-normalisation", Count: n(10000, 300000), Run: func(c *core.Ctx, idx int) {
				// the same members under two names each: equal exactly when the names are the same names
				near := prof.With(func(p *gen.Profile) { p.Keys = gen.NearMissKeys })
				ks := gen.NearMissKeys
				k1, k2 := ks[c.R.Intn(len(ks))], ks[c.R.Intn(len(ks))]
				if c.R.Intn(4) == 0 {
					k2 = k1
				}
				v := near.Value(c.R, 1)
				w := prof.Scalar(c.R)
				mk := func(k string) string {
					m := []string{gen.SpellString(c.R, k, gen.SpellRandom, false) + ":" + v, `"zz":` + w}
					if c.R.Intn(2) == 0 {
						m[0], m[1] = m[1], m[0]
					}
					return "{" + m[0] + "," + m[1] + "}"
				}
				aT, bT := mk(k1), mk(k2)
				if c.R.Intn(3) == 0 {
					aT, bT = "["+aT+"]", "["+bT+"]"
				}
				judgeEqual(c, jp.Equal, "", aT, bT, "near-miss-names")
			}},
			{Name: "null-shapes", Count: n(10000, 200000), Run: func(c *core.Ctx, idx int) {
				vals := []string{`null`, ` null `, `[null]`, `[null,null]`, `[]`, `{}`, `{"a":null}`, `{"a":[null]}`, `{}`, `false`, `0`, `""`, `[[null]]`, `{"a":{"b":null}}`, `{"a":{}}`, `[null,1]`, `[1,null]`}
				judgeEqual(c, jp.Equal, "", vals[c.R.Intn(len(vals))], vals[c.R.Intn(len(vals))], "null-shapes")
			}},
			{Name: "malformed", Count: n(50000, 1000000), Run: func(c *core.Ctx, idx int) {
				aT := prof.Any(c.R)
				bT := aT
				if c.R.Intn(2) == 0 {
					bT = prof.Respell(c.R, mustParse(aT), true)
				}
				switch c.R.Intn(3) {
				case 0:
					aT = gen.Mutate(c.R, aT, bT)
				case 1:
					bT = gen.Mutate(c.R, bT, aT)
				default:
					aT = gen.Mutate(c.R, aT, bT)
					bT = aT // identical, possibly ill-formed texts
					if msg := crossCheckText([]byte(aT)); msg != "" {
						c.Inconclusive(msg)
						return
					}
					judgeEqual(c, jp.Equal, "", aT, bT, "identical-malformed")
					return
				}
				for _, t := range []string{aT, bT} {
					if msg := crossCheckText([]byte(t)); msg != "" {
						c.Inconclusive(msg)
						return
					}
				}
				judgeEqual(c, jp.Equal, "", aT, bT, "malformed")
			}},
			{Name: "deep-texts", Exhaustive: true, Count: func(core.Tier) int { return len(deepDepths) * 3 }, Run: func(c *core.Ctx, idx int) {
				d := deepDepths[idx/3]
				a := deepWrap(d, `{"k":[1,{"m":"s"}],"n":null}`)
				var b, kind string
				switch idx % 3 {
				case 0:
					b, kind = deepWrap(d, ` { "n" : null , "k":[1,{"m":"\u0073"}]}`), "equal-by-construction"
				case 1:
					b, kind = deepWrap(d, `{"k":[1,{"m":"t"}],"n":null}`), "one-point-difference"
				default:
					b, kind = deepWrap(d, `{"k":[1,{"m":"s"}]}`), "one-point-difference"
				}
				judgeEqual(c, jp.Equal, "", a, b, kind)
				c.Count("deep:cases")
			}},
			{Name: "padded-root-scalars", Count: n(20000, 400000), Run: func(c *core.Ctx, idx int) {
				// both texts are scalars at the root with whitespace around them, of equal and of different length
				sc := []string{"1", "2", "10", "-1", "1.0", "1e2", "true", "null", "false", `"a"`, `"b"`, `"ab"`, `"1"`, `""`, "1234", `"abc"`, "0", "7"}
				ws := []string{"", " ", "\n", "  ", "\t ", " \r\n"}
				a := ws[c.R.Intn(len(ws))] + sc[c.R.Intn(len(sc))] + ws[c.R.Intn(len(ws))]
				b := ws[c.R.Intn(len(ws))] + sc[c.R.Intn(len(sc))] + ws[c.R.Intn(len(ws))]
				judgeEqual(c, jp.Equal, "", a, b, "padded-root-scalars")
			}},
			{Name: "duplicate-names", Count: n(20000, 400000), Run: func(c *core.Ctx, idx int) {
				// objects that repeat a member name: what they denote is not compared, but symmetry and
				// reflexivity must hold; b is a itself respelled, a with its duplicates removed, or a
				// with one occurrence of a repeated name renamed (same spelled size, other names)
				dp := prof.With(func(p *gen.Profile) { p.Dup = true; p.Width = 6; p.Keys = []string{"a", "b", "c"} })
				aT := dp.Object(c.R, 1+c.R.Intn(3))
				a := mustParse(aT)
				var bT string
				switch c.R.Intn(3) {
				case 0:
					bT = dp.Respell(c.R, a, false)
				case 1:
					b := a.Clone()
					seen := map[string]bool{}
					var ks []string
					var vs []*jr.Value
					for i := len(b.Keys) - 1; i >= 0; i-- {
						if !seen[b.Keys[i]] {
							seen[b.Keys[i]] = true
							ks = append([]string{b.Keys[i]}, ks...)
							vs = append([]*jr.Value{b.Vals[i]}, vs...)
						}
					}
					b.Keys, b.Vals = ks, vs
					bT = b.String()
				default:
					b := a.Clone()
					for i := range b.Keys {
						for j := i + 1; j < len(b.Keys); j++ {
							if b.Keys[i] == b.Keys[j] {
								b.Keys[i] = "zz" + b.Keys[i]
							}
						}
					}
					bT = b.String()
				}
				if a.HasDup() {
					c.Count("duplicate-names:pairs")
				}
				judgeEqual(c, jp.Equal, "", aT, bT, "duplicate-names")
				judgeEqual(c, jp.Equal, "", bT, aT, "duplicate-names")
			}},
			{Name: "transitivity", Count: n(20000, 400000), Run: func(c *core.Ctx, idx int) {
				aT := prof.Any(c.R)
				a := mustParse(aT)
				bT := prof.Respell(c.R, a, true)
				var cT string
				if c.R.Intn(3) == 0 {
					cT = prof.Respell(c.R, prof.MutateOnePoint(c.R, a), true)
				} else {
					cT = prof.Respell(c.R, a, true)
				}
				ab, p1 := callEqual(jp.Equal, aT, bT)
				bc, p2 := callEqual(jp.Equal, bT, cT)
				ac, p3 := callEqual(jp.Equal, aT, cT)
				c.Eval(3)
				if p1 != nil || p2 != nil || p3 != nil {
					return // reported by the other families
				}
				if _, dec, _ := refEqual(aT, cT); !dec {
					return
				}
				c.Count("transitivity:checked")
				if ab && bc && !ac {
					c.Violation("not-transitive", map[string]any{"a": aT, "b": bT, "c": cT})
				}
				if r, _ := callEqual(jp.Equal, aT, aT); !r {
					c.Violation("not-reflexive", map[string]any{"a": aT})
				}
			}},
		},
	})
}
