package props

import (
	stdjson "encoding/json"
	"fmt"
	"strings"
	"time"
	"unicode/utf8"

	jp "github.com/evanphx/json-patch/v5"
	"github.com/evanphx/json-patch/v5/verifharness/core"
	"github.com/evanphx/json-patch/v5/verifharness/gen"
	jr "github.com/evanphx/json-patch/v5/verifharness/jsonref"
	ref "github.com/evanphx/json-patch/v5/verifharness/ref6902"
	"github.com/evanphx/json-patch/v5/verifharness/ref7396"
	"github.com/evanphx/json-patch/v5/verifharness/refenc"
)

// rawHTML returns the first raw <, >, &, U+2028 or U+2029 in b, if any.
func rawHTML(b []byte) string {
	if i := strings.IndexAny(string(b), "<>&"); i >= 0 {
		return string(b[i : i+1])
	}
	if strings.Contains(string(b), "\xe2\x80\xa8") {
		return "U+2028"
	}
	if strings.Contains(string(b), "\xe2\x80\xa9") {
		return "U+2029"
	}
	return ""
}

// findHTMLEscape returns the first \u003c / \u003e / \u0026 escape of a JSON text. A backslash
// that is itself escaped does not start one: the string `\u003c` (a backslash and five more characters) is
// spelled "\\u003c".
func findHTMLEscape(out []byte) string {
	for i := 0; i+1 < len(out); i++ {
		if out[i] != '\\' {
			continue
		}
		if out[i+1] == 'u' && i+6 <= len(out) {
			switch strings.ToLower(string(out[i+2 : i+6])) {
			case "003c", "003e", "0026": // (U+2028/9 are escaped whatever the switch says, as in encoding/json)
				return string(out[i : i+6])
			}
		}
		i++ // the escaped character
	}
	return ""
}

// wellFormed checks clause (a) on an output: one RFC 8259 text, valid UTF-8.
func wellFormed(c *core.Ctx, api string, out []byte, d map[string]any) (*jr.Value, bool) {
	v, err := jr.Parse(out)
	if err != nil || !stdjson.Valid(out) {
		if (err == nil) != stdjson.Valid(out) {
			c.Inconclusive("oracle disagreement on output validity: " + string(out))
			return nil, false
		}
		c.Violation(api+":output-is-not-wellformed-json", d)
		return nil, false
	}
	if !utf8.Valid(out) {
		c.Violation(api+":output-is-not-valid-utf8", d)
		return nil, false
	}
	c.Count("wellformed:" + api)
	return v, true
}

func init() {
	n := func(q, t int) func(core.Tier) int {
		return func(tier core.Tier) int {
			if tier == core.Thorough {
				return t
			}
			return q
		}
	}
	hostile := gen.Hostile().With(func(p *gen.Profile) {
		p.Keys = append(append([]string{}, c01Keys...), "\xe2\x80\xa8", "<>&", "\x01")
		p.Lone = true
	})
	spelled := func(esc bool) *gen.Profile {
		return hostile.With(func(p *gen.Profile) {
			p.Lone = false
			p.WS = 0
			p.Spell = gen.SpellEncOff
			if esc {
				p.Spell = gen.SpellEncOn
			}
		})
	}
	indents := []string{" ", "  ", "\t", "    ", " \t"}
	core.Register(&core.Prop{
		ID:    "C15",
		Title: "Outputs are well-formed JSON; escaping and indentation never change the value",
		Rule: "Raw output bytes of Apply/ApplyIndent/MergePatch/MergeMergePatches/CreateMergePatch on documents and patches whose strings and member names hold <, >, &, U+2028/9, quotes, backslashes, control characters, non-BMP characters and lone surrogate escapes, in touched, untouched, copied, moved and tested positions. " +
			"Every output must be one RFC 8259 text (independent recogniser and encoding/json agree), valid UTF-8, and parse to the reference's value; EscapeHTML on: no raw <,>,&,U+2028/9 byte sequence; EscapeHTML off on encoder-spelled inputs: no \\u003c/\\u003e/\\u0026 and EscapeRaw(off output) == on output byte for byte; " +
			"ApplyIndent == reference re-indentation of Apply's bytes; inserting passing test operations at random positions leaves the bytes identical. non-trivial = successful call whose output holds at least one string or member name needing an escape decision; distinct = distinct (inputs, options).",
		Assumptions: []string{"refenc implements the encoder's spelling and json.Indent's layout (self-tested against encoding/json)", "byte-identity clauses only on encoder-spelled inputs (stated domain)", "UTF-8 input"},
		Setup:       setPoolMode,
		Finish:      poolFinish,
		Floors: func(t core.Tier, m *core.Merged) []string {
			out := poolFloor(m)
			for _, k := range []string{"wellformed:Apply", "wellformed:MergePatch", "wellformed:MergeMergePatches", "wellformed:CreateMergePatch", "indent:ok", "escape-on:ok", "escape-off:ok", "passing-tests:bytes-identical"} {
				if m.Counts[k] < 1000 {
					out = append(out, k+" fewer than 1000")
				}
			}
			return out
		},
		Families: []core.Family{
			{Name: "apply-hostile", Count: n(40000, 1000000), Run: func(c *core.Ctx, idx int) {
				o := V5Opts{NegIdx: true, EscapeHTML: c.R.Intn(2) == 0, EnsurePath: c.R.Intn(10) == 0}
				cfg := &SeqCfg{Prof: hostile, MinOps: 0, MaxOps: 8, MissRate: 4, RootOK: true}
				sc := GenSeq(c.R, cfg, o.Ref())
				want := ref.Eval(sc.Doc, sc.Ops, o.Ref())
				res := ApplyV5(sc.DocText, sc.Patch(), o, "")
				c.Eval(1)
				d := sc.Describe()
				d["options"] = o.String()
				d["library_output"] = clip(string(res.Out), 2000)
				d["library_error"] = errText(res.Err)
				if res.Panic != nil {
					if want.OutOfDom == "" {
						d["panic"] = panicDetail(res.Panic)
						c.Violation(res.Panic.Sig(), d)
					}
					return
				}
				if res.Err != nil || res.DecodeErr != nil {
					c.Count("apply-failed")
					return
				}
				got, ok := wellFormed(c, "Apply", res.Out, d)
				if !ok {
					return
				}
				if want.OutOfDom == "" && want.Doc != nil && !jr.Equal(want.Doc, got, jr.EqMode{}) {
					d["reference"] = clip(want.Doc.String(), 2000)
					c.Violation("Apply:output-parses-to-a-different-value", d)
					return
				}
				if o.EscapeHTML {
					if raw := rawHTML(res.Out); raw != "" {
						d["raw_character"] = raw
						c.Violation("escape-on:raw-html-character-in-output", d)
						return
					}
					c.Count("escape-on:ok")
				}
				if strings.ContainsAny(sc.DocText+sc.Patch(), "<>&\\") {
					c.Nontrivial(sc.Canon(), o.String())
				}
				// ApplyIndent returns exactly Apply's output re-indented
				ind := indents[c.R.Intn(len(indents))]
				ri := ApplyV5(sc.DocText, sc.Patch(), o, ind)
				c.Eval(1)
				if ri.Panic != nil || ri.Err != nil {
					d["indent_error"] = errText(ri.Err)
					c.Violation("ApplyIndent-fails-where-Apply-succeeds", d)
					return
				}
				if wantI := refenc.Indent(string(res.Out), ind); string(ri.Out) != wantI {
					d["indent"] = ind
					d["indented_output"] = clip(string(ri.Out), 2000)
					d["reference_indentation"] = clip(wantI, 2000)
					c.Violation("ApplyIndent-differs-from-reindented-Apply", d)
					return
				}
				c.Count("indent:ok")
				if c.WantSample() {
					c.Sample(d)
				}
			}},
			{Name: "escape-off-encoder-spelled", Count: n(30000, 700000), Run: func(c *core.Ctx, idx int) {
				prof := spelled(false)
				on, off := V5Opts{NegIdx: true, EscapeHTML: true}, V5Opts{NegIdx: true, EscapeHTML: false}
				cfg := &SeqCfg{Prof: prof, MinOps: 0, MaxOps: 8, MissRate: 3, RootOK: true}
				if idx%3 == 0 {
					// containers created by EnsurePathExistsOnAdd (and what later operations put into them)
					// are spelled under the same option as everything else
					on.EnsurePath, off.EnsurePath = true, true
					on.AllowMissing, off.AllowMissing = idx%2 == 0, idx%2 == 0
					cfg.MissRate = 40
					cfg.MinOps = 1
					cfg.Kinds = []string{"add", "add", "add", "add", "copy", "move", "replace", "test", "remove"}
					c.Count("escape-off:ensure-path-cases")
				}
				sc := GenSeq(c.R, cfg, off.Ref())
				rOff := ApplyV5(sc.DocText, sc.Patch(), off, "")
				rOn := ApplyV5(sc.DocText, sc.Patch(), on, "")
				c.Eval(2)
				d := sc.Describe()
				d["output_escape_off"] = clip(string(rOff.Out), 2000)
				d["output_escape_on"] = clip(string(rOn.Out), 2000)
				if rOff.Panic != nil || rOn.Panic != nil || rOff.Err != nil || rOn.Err != nil {
					if (rOff.Err == nil) != (rOn.Err == nil) {
						c.Violation("EscapeHTML-changes-success", d)
					}
					return
				}
				if m := findHTMLEscape(rOff.Out); m != "" {
					d["escape"] = m
					c.Violation("escape-off:patch-introduces-html-escape", d)
					return
				}
				a, ok1 := wellFormed(c, "Apply", rOff.Out, d)
				b, ok2 := wellFormed(c, "Apply", rOn.Out, d)
				if !ok1 || !ok2 {
					return
				}
				if !jr.Equal(a, b, jr.EqMode{Ordered: true}) {
					c.Violation("EscapeHTML-changes-the-value", d)
					return
				}
				if refenc.EscapeRaw(string(rOff.Out)) != string(rOn.Out) {
					c.Violation("EscapeHTML-changes-more-than-the-escapes", d)
					return
				}
				if raw := rawHTML(rOn.Out); raw != "" {
					c.Violation("escape-on:raw-html-character-in-output", d)
					return
				}
				c.Count("escape-off:ok")
				if strings.ContainsAny(string(rOff.Out), "<>&") {
					c.Nontrivial("off", sc.Canon())
				}
				if c.WantSample() {
					c.Sample(d)
				}
			}},
			{Name: "results-nested-deeper-than-the-decoder-reads", Exhaustive: true, Guard: 400 * time.Second, Count: func(core.Tier) int { return 8 }, Run: func(c *core.Ctx, idx int) {
				// two deep members, one moved (or added) to the bottom of the other: every part is valid where it
				// comes from, the result is nested deeper than the 10 000 levels the library itself accepts
				kind, how := idx%2, (idx/2)%2
				d1, d2 := 6000, 6000
				if idx >= 4 {
					d1, d2 = 9000, 1500
				}
				open, close, tok, last := "[", "]", "/0", "/-"
				if kind == 1 {
					open, close, tok, last = `{"k":`, "}", "/k", "/z"
				}
				deep := func(n int, leaf string) string { return strings.Repeat(open, n) + leaf + strings.Repeat(close, n) }
				leaf := "[]"
				if kind == 1 {
					leaf = "{}"
				}
				doc := `{"a":` + deep(d1, leaf) + `,"b":` + deep(d2, leaf) + `}`
				var patch string
				if how == 0 {
					patch = PatchText([]string{OpText("move", "/b"+strings.Repeat(tok, d2)+last, "/a", "", false)})
				} else {
					patch = PatchText([]string{OpText("add", "/b"+strings.Repeat(tok, d2)+last, "", deep(d1, leaf), true)})
				}
				o := V5Opts{NegIdx: true, EscapeHTML: true}
				res := ApplyV5(doc, patch, o, "")
				ri := ApplyV5(doc, patch, o, " ")
				c.Eval(2)
				d := map[string]any{"document": fmt.Sprintf("{\"a\": %d nested, \"b\": %d nested} (kind %d)", d1, d2, kind), "operation": []string{"move /a to the bottom of /b", "add a value as deep as /a at the bottom of /b"}[how],
					"apply_error": errText(res.Err), "apply_output_bytes": len(res.Out), "applyindent_error": errText(ri.Err), "applyindent_output_bytes": len(ri.Out)}
				if res.Panic != nil || ri.Panic != nil {
					c.Violation("deep-result:panic", d)
					return
				}
				c.Count("deep-results:cases")
				if res.Err != nil {
					// refusing to build such a document is fine; then ApplyIndent must refuse too
					if ri.Err == nil {
						c.Violation("deep-result:ApplyIndent-succeeds-where-Apply-fails", d)
					}
					return
				}
				got, err := jr.ParseMaxDepth(res.Out, 1<<30)
				if err != nil || !utf8.Valid(res.Out) {
					c.Violation("Apply:output-is-not-wellformed-json", d)
					return
				}
				depth := got.Depth()
				d["result_nesting_depth"] = depth
				if ri.Err == nil && string(ri.Out) != refenc.Indent(string(res.Out), " ") {
					// whatever the depth: a successful ApplyIndent returns Apply's output re-indented
					c.Violation("ApplyIndent-differs-from-reindented-Apply", d)
					return
				}
				if depth > jr.MaxDepth {
					// known finding F03 when listed: a successful result that the library itself does not accept as
					// input (and, consequently, an ApplyIndent that cannot indent it)
					c.Violation("Apply:result-nested-deeper-than-the-library-accepts", d, "F03")
					return
				}
				if ri.Err != nil {
					c.Violation("ApplyIndent-fails-where-Apply-succeeds", d)
				}
			}},
			{Name: "passing-tests-invariance", Count: n(30000, 700000), Run: func(c *core.Ctx, idx int) {
				esc := c.R.Intn(2) == 0
				prof := spelled(esc)
				if idx%2 == 0 {
					// strings and names spelled as the encoder spells them, but insignificant
					// whitespace between the tokens (the output is compact either way)
					prof = prof.With(func(p *gen.Profile) { p.WS = 30 })
					c.Count("passing-tests:documents-with-whitespace")
				}
				o := V5Opts{NegIdx: true, EscapeHTML: esc}
				cfg := &SeqCfg{Prof: prof, MinOps: 0, MaxOps: 6, MissRate: 0, RootOK: true, Kinds: []string{"add", "remove", "replace", "move", "copy"}}
				base := GenSeq(c.R, cfg, o.Ref())
				if w := ref.Eval(base.Doc, base.Ops, o.Ref()); w.Doc == nil || w.OutOfDom != "" {
					c.Count("base-not-applicable")
					return
				}
				// insert passing tests at random positions
				with := &SeqCase{DocText: base.DocText, Doc: base.Doc}
				e := ref.New(base.Doc, o.Ref())
				tests := 0
				addTests := func() {
					for k := c.R.Intn(3); k > 0; k-- {
						res, _ := gen.Pointers(e.Root)
						tp := res[c.R.Intn(len(res))]
						cur := valueAt(e, tp)
						if cur == nil {
							continue
						}
						vt := hostile.With(func(p *gen.Profile) { p.Lone = false }).Respell(c.R, cur, true)
						top := ref.Op{Kind: "test", Path: tp, Value: mustParse(vt), HasValue: true}
						if e.Step(top) != ref.OK || e.OOD != "" {
							e.OOD = ""
							continue
						}
						with.Ops = append(with.Ops, top)
						with.OpTexts = append(with.OpTexts, OpText("test", tp, "", vt, true))
						tests++
					}
				}
				addTests()
				for i, op := range base.Ops {
					with.Ops = append(with.Ops, op)
					with.OpTexts = append(with.OpTexts, base.OpTexts[i])
					e.Step(op)
					addTests()
				}
				if tests == 0 {
					return
				}
				r0 := ApplyV5(base.DocText, base.Patch(), o, "")
				r1 := ApplyV5(with.DocText, with.Patch(), o, "")
				c.Eval(2)
				d := map[string]any{"doc": clip(base.DocText, 1500), "patch_without_tests": clip(base.Patch(), 2500), "patch_with_tests": clip(with.Patch(), 3500), "options": o.String(),
					"output_without_tests": clip(string(r0.Out), 1500), "output_with_tests": clip(string(r1.Out), 1500), "error_without": errText(r0.Err), "error_with": errText(r1.Err)}
				if r0.Panic != nil || r1.Panic != nil {
					if r1.Panic != nil {
						d["panic"] = panicDetail(r1.Panic)
						c.Violation(r1.Panic.Sig(), d)
					}
					return
				}
				if r0.Err != nil {
					c.Violation("all-applicable-patch-errors", d)
					return
				}
				if r1.Err != nil {
					c.Violation("passing-test-operation-fails", d)
					return
				}
				if string(r0.Out) != string(r1.Out) {
					c.Violation("passing-test-operations-change-the-output-bytes", d)
					return
				}
				c.Count("passing-tests:bytes-identical")
				c.Nontrivial("tests", with.Canon(), o.String())
				if c.WantSample() {
					c.Sample(d)
				}
			}},
			{Name: "indentation-of-deep-documents", Exhaustive: true, Count: func(core.Tier) int { return len(deepDepths) * 2 }, Run: func(c *core.Ctx, idx int) {
				d := deepDepths[idx/2]
				if d > 2600 {
					return // (the output is depth x depth x len(indent) bytes)
				}
				doc := deepWrap(d, `{"k":[1,{"m":"a<b"}],"n":null,"e":{},"l":[]}`)
				if idx%2 == 1 {
					doc = `{"r":` + strings.Repeat("[", d) + `1,{"x":[]}` + strings.Repeat("]", d) + `}`
				}
				ind := indents[(idx/2)%len(indents)]
				o := V5Opts{NegIdx: true, EscapeHTML: idx%4 < 2}
				patch := `[{"op":"add","path":"/zz","value":{"p":[1,2]}}]`
				res := ApplyV5(doc, patch, o, "")
				ri := ApplyV5(doc, patch, o, ind)
				c.Eval(2)
				dd := map[string]any{"doc": clip(doc, 300), "depth": d, "indent": ind, "options": o.String(), "apply_error": errText(res.Err), "indent_error": errText(ri.Err)}
				if res.Panic != nil || ri.Panic != nil {
					pn := res.Panic
					if pn == nil {
						pn = ri.Panic
					}
					dd["panic"] = panicDetail(pn)
					c.Violation(pn.Sig(), dd)
					return
				}
				if res.Err != nil || ri.Err != nil {
					c.Violation("Apply-or-ApplyIndent-fails-on-a-deep-document", dd)
					return
				}
				if wantI := refenc.Indent(string(res.Out), ind); string(ri.Out) != wantI {
					i := 0
					for i < len(wantI) && i < len(ri.Out) && wantI[i] == ri.Out[i] {
						i++
					}
					dd["first_difference_at_byte"] = i
					dd["library_there"], dd["reference_there"] = clip(string(ri.Out[i:]), 120), clip(wantI[i:], 120)
					c.Violation("ApplyIndent-differs-from-reindented-Apply", dd)
					return
				}
				c.Count("indent:ok")
				c.Count("deep-indent:cases")
			}},
			{Name: "colliding-and-duplicate-names", Count: n(20000, 500000), Run: func(c *core.Ctx, idx int) {
				// member names that are different texts but the same name once decoded (two lone surrogate escapes both
				// become U+FFFD; "a" and "\u0061"), or plain duplicates, at the start, middle and end of objects.  What
				// value such a document has is not stated anywhere, so only the form of a successful result is checked:
				// one well-formed text, ApplyIndent agreeing with it, nothing raw under EscapeHTML.
				groups := [][]string{{`"\ud800"`, `"\udc00"`, `"\ufffd"`}, {`"a"`, `"\u0061"`, `"a"`}, {`"<"`, `"\u003c"`}, {`""`, `""`}, {`"a/b"`, `"a\/b"`}}
				g := groups[c.R.Intn(len(groups))]
				dec := mustParse(g[0]).S
				vals := []string{`1`, `"a<b"`, `null`, `{"k":[1,2]}`, `[{"x":"\u2028"}]`, `true`}
				var ms []string
				for i, k := 0, 2+c.R.Intn(2); i < k; i++ {
					ms = append(ms, g[c.R.Intn(len(g))]+":"+vals[c.R.Intn(len(vals))])
				}
				for k := c.R.Intn(3); k > 0; k-- {
					m := []string{`"note"`, `"z"`, `"m&m"`}[c.R.Intn(3)] + ":" + vals[c.R.Intn(len(vals))]
					at := c.R.Intn(len(ms) + 1)
					ms = append(ms[:at], append([]string{m}, ms[at:]...)...)
				}
				obj := "{" + strings.Join(ms, ",") + "}"
				docT, pre := obj, ""
				switch c.R.Intn(3) {
				case 1:
					docT, pre = `{"o":`+obj+`,"tail":[1]}`, "/o"
				case 2:
					docT, pre = `[0,`+obj+`]`, "/1"
				}
				tok := pre + "/" + jr.EncTok(dec)
				var ops []string
				for k := 1 + c.R.Intn(2); k > 0; k-- {
					switch c.R.Intn(6) {
					case 0:
						ops = append(ops, OpText("remove", tok, "", "", false))
					case 1:
						ops = append(ops, OpText("move", "/moved", tok, "", false))
					case 2:
						ops = append(ops, OpText("copy", "/copied", tok, "", false))
					case 3:
						ops = append(ops, OpText("replace", tok, "", `"r>"`, true))
					case 4:
						ops = append(ops, OpText("add", tok, "", `[1,"&"]`, true))
					default:
						ops = append(ops, OpText("remove", pre+"/"+[]string{"note", "z", "m&m"}[c.R.Intn(3)], "", "", false))
					}
				}
				if docT[0] == '[' {
					for i, o := range ops {
						ops[i] = strings.Replace(strings.Replace(o, `"/moved"`, `"/0"`, 1), `"/copied"`, `"/-"`, 1)
					}
				}
				patch := "[" + strings.Join(ops, ",") + "]"
				o := V5Opts{NegIdx: true, EscapeHTML: c.R.Intn(2) == 0}
				res := ApplyV5(docT, patch, o, "")
				c.Eval(1)
				d := map[string]any{"doc": docT, "patch": patch, "options": o.String(), "library_output": clip(string(res.Out), 2000), "library_error": errText(res.Err)}
				if res.Panic != nil {
					d["panic"] = panicDetail(res.Panic)
					c.Violation(res.Panic.Sig(), d)
					return
				}
				if res.Err != nil || res.DecodeErr != nil {
					c.Count("colliding:apply-failed")
					return
				}
				if _, ok := wellFormed(c, "Apply", res.Out, d); !ok {
					return
				}
				if o.EscapeHTML {
					if raw := rawHTML(res.Out); raw != "" {
						d["raw_character"] = raw
						c.Violation("escape-on:raw-html-character-in-output", d)
						return
					}
				}
				ind := indents[c.R.Intn(len(indents))]
				ri := ApplyV5(docT, patch, o, ind)
				c.Eval(1)
				if ri.Panic != nil || ri.Err != nil {
					d["indent_error"] = errText(ri.Err)
					c.Violation("ApplyIndent-fails-where-Apply-succeeds", d)
					return
				}
				if wantI := refenc.Indent(string(res.Out), ind); string(ri.Out) != wantI {
					d["indent"], d["indented_output"], d["reference_indentation"] = ind, clip(string(ri.Out), 2000), clip(wantI, 2000)
					c.Violation("ApplyIndent-differs-from-reindented-Apply", d)
					return
				}
				c.Count("colliding:wellformed")
				c.Nontrivial("colliding", docT, patch, o.String())
				// the merge entry points on the same document
				mp := `{` + g[c.R.Intn(len(g))] + `:null,"n<":1}`
				if docT[0] == '{' {
					out, err, pn := callMerge(jp.MergePatch, docT, mp)
					c.Eval(1)
					dm := map[string]any{"api": "MergePatch", "a": docT, "b": mp, "output": clip(string(out), 1500), "error": errText(err)}
					if pn != nil {
						dm["panic"] = panicDetail(pn)
						c.Violation("MergePatch:"+pn.Sig(), dm)
						return
					}
					if err == nil {
						wellFormed(c, "MergePatch", out, dm)
					}
				}
			}},
			{Name: "merge-family-outputs", Count: n(40000, 800000), Run: func(c *core.Ctx, idx int) {
				prof := hostile.With(func(p *gen.Profile) {
					p.Keys = append(append([]string{}, gen.MergeKeys...), "\xe2\x80\xa9", "<>&", "\x01", "é")
					p.Width = 4
				})
				var api string
				var a, b string
				var f mergeCall
				switch idx % 3 {
				case 0:
					api, f = "MergePatch", jp.MergePatch
					a = prof.Any(c.R)
					b = genMergePatchFor(c.R, prof, mustParse(a))
				case 1:
					api, f = "MergeMergePatches", jp.MergeMergePatches
					a = prof.Object(c.R, 3)
					b = genMergePatchFor(c.R, prof, mustParse(a))
				default:
					api, f = "CreateMergePatch", jp.CreateMergePatch
					a = prof.Object(c.R, 3)
					b = prof.Respell(c.R, editObject(c.R, prof, mustParse(a), 1+c.R.Intn(3)), true)
				}
				out, err, pn := callMerge(f, a, b)
				c.Eval(1)
				d := map[string]any{"api": api, "a": clip(a, 1500), "b": clip(b, 1500), "output": clip(string(out), 1500), "error": errText(err)}
				if pn != nil {
					d["panic"] = panicDetail(pn)
					c.Violation(api+":"+pn.Sig(), d)
					return
				}
				if err != nil {
					c.Count("merge-family-error")
					return
				}
				if got, ok := wellFormed(c, api, out, d); ok {
					if api == "MergePatch" {
						if da, pb := mustParse(a), mustParse(b); da.K != jr.Null && !da.HasDup() && !pb.HasDup() {
							if want := ref7396.Merge(da, pb); !jr.Equal(want, got, jr.EqMode{}) {
								d["reference"] = clip(want.String(), 1500)
								c.Violation("MergePatch:output-parses-to-a-different-value", d)
								return
							}
						}
					}
					if strings.ContainsAny(a+b, "<>&\\") {
						c.Nontrivial(api, a, b)
					}
					if c.WantSample() {
						c.Sample(d)
					}
				}
			}},
		},
	})
}
