package props

import (
	"bytes"
	stdjson "encoding/json"
	"fmt"
	"io"
	"math"
	"reflect"
	"strings"

	ij "github.com/evanphx/json-patch/v5/internal/json"
	"github.com/evanphx/json-patch/v5/verifharness/core"
	"github.com/evanphx/json-patch/v5/verifharness/gen"
	jr "github.com/evanphx/json-patch/v5/verifharness/jsonref"
	"github.com/evanphx/json-patch/v5/verifharness/mon"
	"github.com/evanphx/json-patch/v5/verifharness/refenc"
)

var floatMantissas = []float64{1, 1.5, 9.999999, 2.5000001, 7}

// bytesGivenAsArray: a []byte target accepts a JSON array of numbers as well as a base64 string; in
// the array form it is decoded like any other slice, whose backing array a later decode may reuse.
func bytesGivenAsArray(text string, t reflect.Type) bool {
	v, err := jr.Parse([]byte(text))
	if err != nil {
		return false
	}
	if t.Kind() == reflect.Slice && t.Elem().Kind() == reflect.Uint8 {
		return v.K == jr.Arr
	}
	if v.K == jr.Obj {
		for i, k := range v.Keys {
			if strings.EqualFold(k, "blob") && v.Vals[i].K == jr.Arr {
				return true
			}
		}
	}
	return false
}

// derefAll renders the byte slices ([]byte decoded from base64 strings) reachable from v without
// passing through another slice or a map: encoding/json gives each of them storage of its own on
// every decode, whereas the reuse of the backing arrays of other slices is documented behaviour
// (and its extent depends on capacity growth, which differs between Go releases).
func derefAll(v reflect.Value) any {
	switch v.Kind() {
	case reflect.Pointer, reflect.Interface:
		if v.IsNil() {
			return nil
		}
		return derefAll(v.Elem())
	case reflect.Struct:
		out := map[string]any{}
		for i := 0; i < v.NumField(); i++ {
			if v.Type().Field(i).IsExported() {
				if x := derefAll(v.Field(i)); x != nil {
					out[v.Type().Field(i).Name] = x
				}
			}
		}
		return out
	case reflect.Slice:
		if v.Type().Elem().Kind() == reflect.Uint8 && !v.IsNil() {
			return fmt.Sprintf("%x", v.Bytes())
		}
	}
	return nil
}

func syntaxOffset(err error) (int64, bool) {
	switch e := err.(type) {
	case *ij.SyntaxError:
		return e.Offset, true
	case *stdjson.SyntaxError:
		return e.Offset, true
	}
	return 0, false
}

// sameError: error presence, and for syntax errors the offset.
func sameError(fe, se error) string {
	if (fe == nil) != (se == nil) {
		return fmt.Sprintf("error presence differs: fork=%v std=%v", fe, se)
	}
	fo, f1 := syntaxOffset(fe)
	so, s1 := syntaxOffset(se)
	if f1 != s1 {
		return fmt.Sprintf("one side reports a SyntaxError, the other does not: fork=%v std=%v", fe, se)
	}
	if f1 && fo != so {
		return fmt.Sprintf("SyntaxError.Offset differs: fork=%d std=%d", fo, so)
	}
	return ""
}

// stdUnmarshalNumber is encoding/json's Unmarshal with UseNumber (the fork
// forces UseNumber on its pooled entry points): validity and trailing data are
// checked first, because a streaming Decode fills the target up to a syntax
// error whereas Unmarshal refuses first.
func stdUnmarshalNumber(data []byte, v any) error {
	if !stdjson.Valid(data) {
		return stdjson.Unmarshal(data, new(any)) // the SyntaxError Unmarshal reports
	}
	dec := stdjson.NewDecoder(bytes.NewReader(data))
	dec.UseNumber()
	return dec.Decode(v)
}

// judgeRoundTrip: decode-then-encode through the fork reproduces the value; key lists are in document order.
func judgeRoundTrip(c *core.Ctx, text string) {
	b := []byte(text)
	in, perr := jr.Parse(b)
	if perr != nil || !isUTF8(b) {
		c.Count("out_of_domain")
		return
	}
	var v any
	var out []byte
	var uerr, merr error
	pn := mon.Try(func() {
		uerr = ij.Unmarshal(b, &v)
		if uerr == nil {
			out, merr = ij.Marshal(v)
		}
	})
	c.Eval(2)
	d := map[string]any{"input": clip(text, 1500), "reencoded": clip(string(out), 1500), "unmarshal_error": errText(uerr), "marshal_error": errText(merr)}
	if pn != nil {
		d["panic"] = panicDetail(pn)
		c.Violation("roundtrip:"+pn.Sig(), d)
		return
	}
	if uerr != nil || merr != nil {
		c.Violation("roundtrip:wellformed-text-fails-to-decode-or-encode", d)
		return
	}
	if !in.HasDup() {
		got, err := jr.Parse(out)
		if err != nil || !jr.Equal(in, got, jr.EqMode{}) {
			c.Violation("roundtrip:decode-then-encode-changes-the-value", d)
			return
		}
		c.Count("roundtrip:ok")
		c.Nontrivial("rt", text)
		// the same round trip through every decoding entry point of the fork (each takes its own
		// decodeState from the pool and must configure it itself) and both escape settings
		for _, api := range []string{"UnmarshalWithKeys", "UnmarshalValid", "UnmarshalValidWithKeys"} {
			var v2 any
			var out2 []byte
			var e1, e2 error
			esc := c.R.Intn(2) == 0
			pn := mon.Try(func() {
				switch api {
				case "UnmarshalWithKeys":
					_, e1 = ij.UnmarshalWithKeys(b, &v2)
				case "UnmarshalValid":
					e1 = ij.UnmarshalValid(b, &v2)
				default:
					_, e1 = ij.UnmarshalValidWithKeys(b, &v2)
				}
				if e1 == nil {
					out2, e2 = ij.MarshalEscaped(v2, esc)
				}
			})
			c.Eval(2)
			d2 := map[string]any{"input": clip(text, 1500), "decoded_with": api, "escape_html": esc, "reencoded": clip(string(out2), 1500), "unmarshal_error": errText(e1), "marshal_error": errText(e2)}
			if pn != nil {
				d2["panic"] = panicDetail(pn)
				c.Violation("roundtrip:"+api+":"+pn.Sig(), d2)
				return
			}
			got2, err := jr.Parse(out2)
			if e1 != nil || e2 != nil || err != nil || !jr.Equal(in, got2, jr.EqMode{}) {
				c.Violation("roundtrip:"+api+"-then-encode-changes-the-value", d2)
				return
			}
			c.Count("roundtrip:" + api + ":ok")
		}
	}
	// key lists
	if in.K == jr.Obj {
		for _, api := range []string{"UnmarshalWithKeys", "UnmarshalValidWithKeys"} {
			for _, target := range []string{"map[string]any", "map[string]*RawMessage", "any"} {
				var keys []string
				var err error
				pn := mon.Try(func() {
					var t1 map[string]any
					var t2 map[string]*ij.RawMessage
					var t3 any
					var tp any = &t1
					switch target {
					case "map[string]*RawMessage":
						tp = &t2
					case "any":
						tp = &t3
					}
					if api == "UnmarshalWithKeys" {
						keys, err = ij.UnmarshalWithKeys(b, tp)
					} else {
						keys, err = ij.UnmarshalValidWithKeys(b, tp)
					}
				})
				c.Eval(1)
				d["api"], d["target"], d["keys"], d["error"] = api, target, keys, errText(err)
				if pn != nil {
					d["panic"] = panicDetail(pn)
					c.Violation("keys:"+pn.Sig(), d)
					return
				}
				if err != nil || !reflect.DeepEqual(append([]string{}, keys...), append([]string{}, in.Keys...)) {
					d["expected_keys"] = in.Keys
					c.Violation("keys:"+api+"-does-not-return-member-names-in-document-order", d)
					return
				}
				c.Count("keys:ok")
			}
		}
	}
	if c.WantSample() {
		c.Sample(d)
	}
}

// judgeTransforms: Compact / Indent / HTMLEscape against encoding/json and refenc.
func judgeTransforms(c *core.Ctx, text string) {
	b := []byte(text)
	var fc, fi, fh, sc, si, sh bytes.Buffer
	var fce, fie, sce, sie error
	prefix, indent := []string{"", ">"}[c.R.Intn(2)], []string{" ", "\t", "  ", ""}[c.R.Intn(4)]
	pn := mon.Try(func() {
		fce = ij.Compact(&fc, b)
		fie = ij.Indent(&fi, b, prefix, indent)
		ij.HTMLEscape(&fh, b)
	})
	sce = stdjson.Compact(&sc, b)
	sie = stdjson.Indent(&si, b, prefix, indent)
	stdjson.HTMLEscape(&sh, b)
	c.Eval(3)
	d := map[string]any{"input": fmt.Sprintf("%q", clip(text, 800)), "prefix": prefix, "indent": indent}
	if pn != nil {
		d["panic"] = panicDetail(pn)
		c.Violation("transform:"+pn.Sig(), d)
		return
	}
	if why := sameError(fce, sce); why != "" {
		d["why"] = why
		c.Violation("transform:Compact-error-differs-from-encoding/json", d)
		return
	}
	if why := sameError(fie, sie); why != "" {
		d["why"] = why
		c.Violation("transform:Indent-error-differs-from-encoding/json", d)
		return
	}
	if fce == nil && fc.String() != sc.String() {
		d["fork"], d["std"] = fc.String(), sc.String()
		c.Violation("transform:Compact-bytes-differ-from-encoding/json", d)
		return
	}
	if fie == nil && fi.String() != si.String() {
		d["fork"], d["std"] = fi.String(), si.String()
		c.Violation("transform:Indent-bytes-differ-from-encoding/json", d)
		return
	}
	if fh.String() != sh.String() {
		d["fork"], d["std"] = fh.String(), sh.String()
		c.Violation("transform:HTMLEscape-bytes-differ-from-encoding/json", d)
		return
	}
	if fce == nil && isUTF8(b) {
		in, err := jr.Parse(b)
		if err == nil {
			for name, out := range map[string]string{"Compact": fc.String(), "Indent": strings.ReplaceAll(fi.String(), "\n"+prefix, "\n"), "HTMLEscape": fh.String()} {
				got, e2 := jr.Parse([]byte(out))
				if e2 != nil || !jr.Equal(in, got, jr.EqMode{Ordered: true}) {
					d["output"] = out
					c.Violation("transform:"+name+"-changes-the-value", d)
					return
				}
			}
			// json.Indent keeps the trailing whitespace of its input
			trail := text[len(strings.TrimRight(text, " \t\r\n")):]
			if prefix == "" && indent != "" && refenc.Indent(fc.String(), indent)+trail != fi.String() {
				c.Violation("transform:Indent-differs-from-reference-layout", d)
				return
			}
			if refenc.EscapeRaw(text) != fh.String() {
				c.Violation("transform:HTMLEscape-differs-from-reference", d)
				return
			}
			c.Nontrivial("tr", text)
		}
	}
	c.Count("transform:ok")
}

// judgeMarshal: Marshal / MarshalIndent / MarshalEscaped / Encoder of a Go value against encoding/json.
func judgeMarshal(c *core.Ctx, v any, what string) {
	var fb, fib, fe0, fe1 []byte
	var ferr, fierr, e0err, e1err, fencErr error
	var fenc bytes.Buffer
	esc := c.R.Intn(2) == 0
	prefix, indent := []string{"", "p"}[c.R.Intn(2)], []string{"", " ", "\t"}[c.R.Intn(3)]
	pn := mon.Try(func() {
		fb, ferr = ij.Marshal(v)
		fib, fierr = ij.MarshalIndent(v, prefix, indent)
		fe0, e0err = ij.MarshalEscaped(v, false)
		fe1, e1err = ij.MarshalEscaped(v, true)
		enc := ij.NewEncoder(&fenc)
		enc.SetEscapeHTML(esc)
		enc.SetIndent(prefix, indent)
		fencErr = enc.Encode(v)
	})
	sb, serr := stdjson.Marshal(v)
	sib, sierr := stdjson.MarshalIndent(v, prefix, indent)
	var senc bytes.Buffer
	se := stdjson.NewEncoder(&senc)
	se.SetEscapeHTML(esc)
	se.SetIndent(prefix, indent)
	sencErr := se.Encode(v)
	c.Eval(5)
	d := map[string]any{"value": clip(fmt.Sprintf("%#v", v), 800), "what": what, "fork": clip(string(fb), 800), "std": clip(string(sb), 800), "fork_error": errText(ferr), "std_error": errText(serr)}
	if pn != nil {
		d["panic"] = panicDetail(pn)
		c.Violation("marshal:"+pn.Sig(), d)
		return
	}
	switch {
	case (ferr == nil) != (serr == nil):
		c.Violation("marshal:Marshal-error-presence-differs", d)
	case ferr == nil && normBytes(fb) != normBytes(sb):
		c.Violation("marshal:Marshal-bytes-differ", d)
	case (fierr == nil) != (sierr == nil) || (fierr == nil && normBytes(fib) != normBytes(sib)):
		d["fork"], d["std"] = clip(string(fib), 800), clip(string(sib), 800)
		c.Violation("marshal:MarshalIndent-differs", d)
	case (fencErr == nil) != (sencErr == nil) || (fencErr == nil && normBytes(fenc.Bytes()) != normBytes(senc.Bytes())):
		d["fork"], d["std"], d["escapeHTML"], d["prefix"], d["indent"] = clip(fenc.String(), 800), clip(senc.String(), 800), esc, prefix, indent
		c.Violation("marshal:Encoder-differs", d)
	case (e0err == nil) != (ferr == nil) || (e1err == nil) != (ferr == nil):
		c.Violation("marshal:MarshalEscaped-error-presence-differs-from-Marshal", d)
	case ferr == nil && string(fe1) != string(fb):
		d["escaped_true"] = clip(string(fe1), 800)
		c.Violation("marshal:MarshalEscaped(true)-differs-from-Marshal", d)
	case ferr == nil && what == "dynamic" && refenc.EscapeRaw(string(fe0)) != string(fe1):
		// (byte identity only for dynamic values: a ",string" struct tag quotes an already escaped
		// string a second time, in encoding/json as well; struct values are held to encoding/json below)
		d["escaped_false"], d["escaped_true"] = clip(string(fe0), 800), clip(string(fe1), 800)
		c.Violation("marshal:html-escaping-switch-changes-more-than-escapes", d)
	case ferr == nil && !sameAsStdEncoder(v, fe0, false):
		d["escaped_false"] = clip(string(fe0), 800)
		c.Violation("marshal:MarshalEscaped(false)-differs-from-encoding/json-Encoder(SetEscapeHTML(false))", d)
	default:
		c.Count("marshal:ok")
		if ferr == nil {
			c.Nontrivial("m", what, string(fb))
		} else {
			c.Count("marshal:both-error")
		}
		if c.WantSample() {
			c.Sample(d)
		}
	}
}

// judgeTyped: Unmarshal of text into a fresh value of type t, fork vs encoding/json; then Marshal of both.
func judgeTyped(c *core.Ctx, t reflect.Type, text string) {
	b := []byte(text)
	fv, sv := reflect.New(t), reflect.New(t)
	var ferr error
	pn := mon.Try(func() { ferr = ij.Unmarshal(b, fv.Interface()) })
	serr := stdUnmarshalNumber(b, sv.Interface())
	c.Eval(1)
	d := map[string]any{"type": clip(t.String(), 700), "input": clip(text, 900), "fork_error": errText(ferr), "std_error": errText(serr)}
	if pn != nil {
		d["panic"] = panicDetail(pn)
		c.Violation("typed:"+pn.Sig(), d)
		return
	}
	if why := sameError(ferr, serr); why != "" {
		d["why"] = why
		c.Violation("typed:Unmarshal-"+strings.SplitN(why, ":", 2)[0], d)
		return
	}
	// marshal what each side decoded with its own encoder (before the Number types are unified)
	var fb []byte
	var fe error
	pn = mon.Try(func() { fb, fe = ij.Marshal(fv.Interface()) })
	if pn != nil {
		d["panic"] = panicDetail(pn)
		c.Violation("typed:marshal:"+pn.Sig(), d)
		return
	}
	toStdNumbers(fv.Elem())
	if !reflect.DeepEqual(fv.Interface(), sv.Interface()) {
		d["fork_value"] = clip(fmt.Sprintf("%+v", fv.Elem().Interface()), 900)
		d["std_value"] = clip(fmt.Sprintf("%+v", sv.Elem().Interface()), 900)
		c.Violation("typed:Unmarshal-value-differs", d)
		return
	}
	c.Count("typed:unmarshal-ok")
	if ferr != nil {
		c.Count("typed:both-error")
	}
	c.Nontrivial("ty", t.String(), text)
	sb, se := stdjson.Marshal(sv.Interface())
	c.Eval(1)
	if (fe == nil) != (se == nil) || (fe == nil && normBytes(fb) != normBytes(sb)) {
		d["fork"], d["std"], d["fork_marshal_error"], d["std_marshal_error"] = clip(string(fb), 900), clip(string(sb), 900), errText(fe), errText(se)
		c.Violation("typed:Marshal-differs", d)
		return
	}
	c.Count("typed:marshal-ok")
	// DisallowUnknownFields through the stream decoders
	fd := ij.NewDecoder(bytes.NewReader(b))
	sd := stdjson.NewDecoder(bytes.NewReader(b))
	fd.DisallowUnknownFields()
	sd.DisallowUnknownFields()
	fd.UseNumber()
	sd.UseNumber()
	f2, s2 := reflect.New(t), reflect.New(t)
	var fe2 error
	pn = mon.Try(func() { fe2 = fd.Decode(f2.Interface()) })
	se2 := sd.Decode(s2.Interface())
	c.Eval(1)
	if pn != nil {
		d["panic"] = panicDetail(pn)
		c.Violation("typed:decoder:"+pn.Sig(), d)
		return
	}
	if why := sameError(fe2, se2); why != "" {
		d["why"] = why
		c.Violation("typed:Decoder(DisallowUnknownFields)-"+strings.SplitN(why, ":", 2)[0], d)
		return
	}
	toStdNumbers(f2.Elem())
	if !reflect.DeepEqual(f2.Interface(), s2.Interface()) {
		d["fork_value"] = clip(fmt.Sprintf("%+v", f2.Elem().Interface()), 900)
		d["std_value"] = clip(fmt.Sprintf("%+v", s2.Elem().Interface()), 900)
		c.Violation("typed:Decoder-value-differs", d)
		return
	}
	c.Count("typed:decoder-ok")
	if c.WantSample() {
		c.Sample(d)
	}
}

// judgeStream: Decoder.Decode / Token / More / Buffered / InputOffset on a stream of values.
func judgeStream(c *core.Ctx, text string, useNumber bool) {
	b := []byte(text)
	d := map[string]any{"input": fmt.Sprintf("%q", clip(text, 900)), "use_number": useNumber}
	// Decode loop
	fd, sd := ij.NewDecoder(bytes.NewReader(b)), stdjson.NewDecoder(bytes.NewReader(b))
	if useNumber {
		fd.UseNumber()
		sd.UseNumber()
	}
	for i := 0; i < 50; i++ {
		var fv, sv any
		var fe error
		var fmore bool
		var foff int64
		pn := mon.Try(func() {
			fmore = fd.More()
			fe = fd.Decode(&fv)
			foff = fd.InputOffset()
		})
		smore := sd.More()
		se := sd.Decode(&sv)
		soff := sd.InputOffset()
		c.Eval(1)
		d["value_index"] = i
		if pn != nil {
			d["panic"] = panicDetail(pn)
			c.Violation("stream:"+pn.Sig(), d)
			return
		}
		if why := sameError(fe, se); why != "" {
			d["why"] = why
			c.Violation("stream:Decode-"+strings.SplitN(why, ":", 2)[0], d)
			return
		}
		if fmore != smore || foff != soff {
			d["fork_more"], d["std_more"], d["fork_offset"], d["std_offset"] = fmore, smore, foff, soff
			c.Violation("stream:More-or-InputOffset-differs", d)
			return
		}
		if !reflect.DeepEqual(normAny(fv), sv) {
			d["fork_value"], d["std_value"] = fmt.Sprintf("%#v", fv), fmt.Sprintf("%#v", sv)
			c.Violation("stream:Decode-value-differs", d)
			return
		}
		if fe != nil {
			break
		}
		if i == 0 {
			fbuf, _ := io.ReadAll(fd.Buffered())
			sbuf, _ := io.ReadAll(sd.Buffered())
			if string(fbuf) != string(sbuf) {
				c.Violation("stream:Buffered-differs", d)
				return
			}
		}
	}
	c.Count("stream:decode-ok")
	// Token loop
	ft, st := ij.NewDecoder(strings.NewReader(text)), stdjson.NewDecoder(strings.NewReader(text))
	if useNumber {
		ft.UseNumber()
		st.UseNumber()
	}
	for i := 0; i < 400; i++ {
		var ftok ij.Token
		var fe error
		var foff int64
		var fmore bool
		pn := mon.Try(func() {
			ftok, fe = ft.Token()
			foff = ft.InputOffset()
			fmore = ft.More()
		})
		stok, se := st.Token()
		soff := st.InputOffset()
		smore := st.More()
		c.Eval(1)
		d["token_index"] = i
		if pn != nil {
			d["panic"] = panicDetail(pn)
			c.Violation("stream:token:"+pn.Sig(), d)
			return
		}
		if why := sameError(fe, se); why != "" {
			d["why"] = why
			c.Violation("stream:Token-"+strings.SplitN(why, ":", 2)[0], d)
			return
		}
		var fn any = ftok
		switch t := ftok.(type) {
		case ij.Delim:
			fn = stdjson.Delim(t)
		case ij.Number:
			fn = stdjson.Number(t)
		}
		if !reflect.DeepEqual(fn, any(stok)) || foff != soff || fmore != smore {
			d["fork_token"], d["std_token"], d["fork_offset"], d["std_offset"] = fmt.Sprintf("%#v", ftok), fmt.Sprintf("%#v", stok), foff, soff
			c.Violation("stream:Token-differs", d)
			return
		}
		if fe != nil {
			break
		}
	}
	c.Count("stream:token-ok")
	c.Nontrivial("st", text)
	if c.WantSample() {
		c.Sample(d)
	}
}

func init() {
	n := func(q, t int) func(core.Tier) int {
		return func(tier core.Tier) int {
			if tier == core.Thorough {
				return t
			}
			return q
		}
	}
	prof := gen.Hostile().With(func(p *gen.Profile) { p.Lone = true; p.WS = 15 })
	core.Register(&core.Prop{
		ID:    "C17",
		Title: "The embedded JSON codec is faithful and order-aware",
		Rule: "The embedded codec against an independent parser and against this toolchain's encoding/json: decode-then-encode round trip of well-formed texts (numbers by literal, strings by code point); UnmarshalWithKeys/UnmarshalValidWithKeys key lists in document order; Compact/Indent/HTMLEscape bytes; Marshal/MarshalIndent/MarshalEscaped/Encoder bytes on generated Go values (nil, bool, all number kinds incl. NaN/Inf, strings of arbitrary bytes, []byte, slices, maps with string/int/TextMarshaler keys, pointers, hand-written Marshaler/TextMarshaler types); " +
			"Unmarshal and Decoder(DisallowUnknownFields) into run-time generated struct types (reflect.StructOf: renamed, omitempty, string, '-', case-colliding names, embedded structs) from fitting and type-mismatched texts, then Marshal; Decoder streams (Decode, Token, More, Buffered, InputOffset, UseNumber). Compared: value (reflect.DeepEqual after mapping Number), bytes (U+0008/U+000C spelling normalised), error presence, SyntaxError offsets. " +
			"Each worker issues its calls in one long history, one third each with the pool sanitizer off / poison / fresh. non-trivial = compared call with a non-error result; distinct = distinct (API group, input).",
		Assumptions: []string{"this toolchain's encoding/json (go1.23) is the ground truth for everything shared", "normalised: U+0008/U+000C spelling, the distinct Number type (standard-library side decoded with UseNumber)"},
		Setup:       setPoolMode,
		Finish:      poolFinish,
		Floors: func(t core.Tier, m *core.Merged) []string {
			out := poolFloor(m)
			for _, k := range []string{"roundtrip:ok", "roundtrip:UnmarshalValid:ok", "roundtrip:UnmarshalValidWithKeys:ok", "roundtrip:UnmarshalWithKeys:ok", "keys:ok", "transform:ok", "marshal:ok", "typed:unmarshal-ok", "typed:marshal-ok", "typed:decoder-ok", "stream:decode-ok", "stream:token-ok"} {
				if m.Counts[k] < 2000 {
					out = append(out, k+" fewer than 2000")
				}
			}
			if m.Counts["typed:both-error"] < 100 || m.Counts["marshal:both-error"] < 100 {
				out = append(out, "error paths exercised too rarely")
			}
			if m.Counts["struct-types-generated"] < 150 {
				out = append(out, "fewer than 150 struct types generated")
			}
			return out
		},
		Families: []core.Family{
			{Name: "roundtrip-and-keys", Count: n(30000, 2400000), Run: func(c *core.Ctx, idx int) {
				if idx%3 == 0 {
					judgeRoundTrip(c, prof.Object(c.R, 1+c.R.Intn(4)))
				} else {
					judgeRoundTrip(c, prof.Any(c.R))
				}
			}},
			{Name: "transforms", Count: n(30000, 2400000), Run: func(c *core.Ctx, idx int) {
				t := prof.Any(c.R)
				if idx%4 == 0 {
					t = gen.Mutate(c.R, t, prof.Any(c.R))
				}
				judgeTransforms(c, t)
			}},
			{Name: "marshal-go-values", Count: n(30000, 2400000), Run: func(c *core.Ctx, idx int) {
				judgeMarshal(c, genGo(c.R, 3), "dynamic")
			}},
			{Name: "transforms-of-deep-texts", Exhaustive: true, Count: func(core.Tier) int { return len(deepDepths) * 2 }, Run: func(c *core.Ctx, idx int) {
				d := deepDepths[idx/2]
				if d > 2600 {
					return // (indented output grows with depth x depth)
				}
				t := deepWrap(d, `{"k":[1,{"m":"a<b"}],"n":null,"e":{},"l":[]}`)
				if idx%2 == 1 {
					t = strings.Repeat("[", d) + ` 1 , {"x" : [ ] } ` + strings.Repeat("]", d)
				}
				judgeTransforms(c, t)
				judgeTransforms(c, t)
				c.Count("deep-transforms:cases")
			}},
			{Name: "deep-values-with-interior-pointers", Exhaustive: true, Count: func(core.Tier) int { return deepValueCount }, Run: func(c *core.Ctx, idx int) {
				v, what := deepValue(idx)
				judgeMarshal(c, v, "deep: "+what)
				c.Count("deep-values:checked")
			}},
			{Name: "generated-struct-types", Count: n(400, 12000), Run: func(c *core.Ctx, idx int) {
				var t reflect.Type
				pn := mon.Try(func() {
					if idx%3 == 0 {
						t = genEmbedded(c.R, 2+c.R.Intn(4))
					} else {
						t = genStructType(c.R, 2)
					}
				})
				if pn != nil || t == nil {
					c.Count("struct-type-generation-refused")
					return
				}
				c.Count("struct-types-generated")
				for i := 0; i < 60; i++ {
					text := genTextFor(c.R, t, 3)
					if i%10 == 9 {
						text = gen.Mutate(c.R, text, genTextFor(c.R, t, 2))
					}
					judgeTyped(c, t, text)
					if c.NViolations() > 0 {
						return
					}
				}
				// marshal values of this type as decoded by the standard library, through pointers too
				v := reflect.New(t)
				// plain Unmarshal: numbers in interfaces are float64, a type both encoders know
				if stdjson.Unmarshal([]byte(genTextFor(c.R, t, 3)), v.Interface()) == nil {
					judgeMarshal(c, v.Interface(), "struct")
					judgeMarshal(c, v.Elem().Interface(), "struct-value")
					judgeMarshal(c, []any{v.Interface(), map[string]any{"k": v.Elem().Interface()}}, "struct-nested")
				}
			}},
			{Name: "float-spelling", Exhaustive: true, Count: func(core.Tier) int { return len(floatMantissas) * 71 }, Run: func(c *core.Ctx, idx int) {
				// every decimal exponent -35..35 x a few mantissas, as float64 and float32, plain, behind a pointer,
				// in an interface, as map value, in a struct field and in a `,string` field: Marshal bytes against encoding/json
				f := floatMantissas[idx%len(floatMantissas)] * math.Pow(10, float64(idx/len(floatMantissas)-35))
				if idx%2 == 1 {
					f = -f
				}
				f32 := float32(f)
				type quoted struct {
					Q  float64  `json:"q,string"`
					P  *float64 `json:"p,string"`
					F  float32  `json:"f,string"`
					N  float64  `json:"n"`
					O  float64  `json:"o,omitempty"`
					PF *float32 `json:",omitempty"`
				}
				for _, v := range []any{f, f32, &f, []any{f, f32}, map[string]float64{"k": f}, map[string]any{"k": f32}, quoted{Q: f, P: &f, F: f32, N: f, O: f, PF: &f32}, &quoted{Q: f}, []float32{f32}} {
					judgeMarshal(c, v, "float-spelling")
				}
			}},
			{Name: "token-and-decode-walks", Count: n(10000, 600000), Run: func(c *core.Ctx, idx int) {
				// the usual way to read a big array or object: Token() opens it, then More()/Decode() element by
				// element into a typed target - with elements that do not fit the target, after which the caller
				// keeps reading - then Token() closes it; every step against encoding/json
				elemT := []reflect.Type{reflect.TypeOf(0), reflect.TypeOf(""), reflect.TypeOf([]byte(nil)), reflect.TypeOf(map[string]int(nil)), reflect.TypeOf(struct{ A int }{}), reflect.TypeOf((*any)(nil)).Elem()}[c.R.Intn(6)]
				var parts []string
				for k := c.R.Intn(6); k > 0; k-- {
					if c.R.Intn(3) == 0 {
						parts = append(parts, prof.Value(c.R, 1)) // may not fit
					} else {
						parts = append(parts, genTextFor(c.R, elemT, 2))
					}
				}
				text := "[" + strings.Join(parts, ",") + "]"
				if c.R.Intn(3) == 0 {
					var kv []string
					for i, pt := range parts {
						kv = append(kv, fmt.Sprintf("\"k%d\":%s", i, pt))
					}
					text = "{" + strings.Join(kv, ",") + "}"
				}
				if c.R.Intn(8) == 0 {
					text = gen.Mutate(c.R, text, "")
				}
				fd, sd := ij.NewDecoder(strings.NewReader(text)), stdjson.NewDecoder(strings.NewReader(text))
				d := map[string]any{"input": clip(text, 900), "element_type": elemT.String()}
				for step := 0; step < 40; step++ {
					useDecode := step > 0 && c.R.Intn(3) > 0
					var ftok ij.Token
					var fe, se error
					var stok stdjson.Token
					fv, sv := reflect.New(elemT), reflect.New(elemT)
					pn := mon.Try(func() {
						if useDecode && fd.More() {
							fe = fd.Decode(fv.Interface())
						} else {
							useDecode = false
							ftok, fe = fd.Token()
						}
					})
					if useDecode {
						if !sd.More() {
							d["step"] = step
							c.Violation("walk:More-differs", d)
							return
						}
						se = sd.Decode(sv.Interface())
					} else {
						stok, se = sd.Token()
					}
					c.Eval(1)
					d["step"], d["fork_error"], d["std_error"] = step, errText(fe), errText(se)
					if pn != nil {
						d["panic"] = panicDetail(pn)
						c.Violation("walk:"+pn.Sig(), d)
						return
					}
					if (fe == nil) != (se == nil) || fd.InputOffset() != sd.InputOffset() || fd.More() != sd.More() {
						d["fork_offset"], d["std_offset"] = fd.InputOffset(), sd.InputOffset()
						c.Violation("walk:error-offset-or-More-differs", d)
						return
					}
					if useDecode {
						toStdNumbers(fv.Elem())
						if !reflect.DeepEqual(fv.Interface(), sv.Interface()) {
							c.Violation("walk:decoded-element-differs", d)
							return
						}
					} else {
						var fn any = ftok
						switch t := ftok.(type) {
						case ij.Delim:
							fn = stdjson.Delim(t)
						case ij.Number:
							fn = stdjson.Number(t)
						}
						if fn2, ok := fn.(float64); ok {
							if sn, ok2 := stok.(float64); !ok2 || sn != fn2 {
								c.Violation("walk:token-differs", d)
								return
							}
						} else if !reflect.DeepEqual(fn, any(stok)) {
							d["fork_token"], d["std_token"] = fmt.Sprintf("%#v", ftok), fmt.Sprintf("%#v", stok)
							c.Violation("walk:token-differs", d)
							return
						}
					}
					if fe != nil {
						if _, syn := fe.(*ij.SyntaxError); syn || fe == io.EOF {
							break
						}
					}
				}
				c.Count("walk:ok")
			}},
			{Name: "targets-decoded-into-again", Count: n(10000, 600000), Run: func(c *core.Ctx, idx int) {
				// one variable, several decodes (the usual `var rec T; for dec.More() { dec.Decode(&rec); keep(rec) }`):
				// what was kept from an earlier decode must not change when the variable is decoded into again
				t := fieldTypes[c.R.Intn(len(fieldTypes))]
				if c.R.Intn(2) == 0 {
					t = reflect.StructOf([]reflect.StructField{{Name: "ID", Type: reflect.TypeOf(0)}, {Name: "Blob", Type: reflect.TypeOf([]byte(nil))}, {Name: "L", Type: reflect.TypeOf([]int(nil))}, {Name: "M", Type: reflect.TypeOf(map[string]int(nil))}, {Name: "P", Type: reflect.TypeOf((*string)(nil))}})
				}
				fv, sv := reflect.New(t), reflect.New(t)
				var fkept, skept []string
				d := map[string]any{"type": clip(t.String(), 400)}
				var texts []string
				arrayForm := false
				for k := 0; k < 4; k++ {
					text := genTextFor(c.R, t, 3)
					if bytesGivenAsArray(text, t) {
						arrayForm = true
					}
					texts = append(texts, clip(text, 300))
					var ferr error
					pn := mon.Try(func() { ferr = ij.Unmarshal([]byte(text), fv.Interface()) })
					serr := stdUnmarshalNumber([]byte(text), sv.Interface())
					c.Eval(1)
					d["inputs"] = texts
					if pn != nil {
						d["panic"] = panicDetail(pn)
						c.Violation("again:"+pn.Sig(), d)
						return
					}
					if (ferr == nil) != (serr == nil) {
						d["fork_error"], d["std_error"] = errText(ferr), errText(serr)
						c.Violation("again:error-presence-differs", d)
						return
					}
					// keep shallow copies (as `out = append(out, rec)` does) and their rendering now
					fc, sc2 := reflect.New(t).Elem(), reflect.New(t).Elem()
					fc.Set(fv.Elem())
					sc2.Set(sv.Elem())
					fkept = append(fkept, fmt.Sprintf("%+v", derefAll(fc)))
					skept = append(skept, fmt.Sprintf("%+v", derefAll(sc2)))
					defer func(fc, sc2 reflect.Value, i int) {
						if c.NViolations() > 0 || arrayForm {
							return
						}
						if now := fmt.Sprintf("%+v", derefAll(fc)); now != fkept[i] {
							// encoding/json is the yardstick: if its kept copy changed in the same way, that is shared behaviour
							if snow := fmt.Sprintf("%+v", derefAll(sc2)); snow == skept[i] {
								d["kept_after_decode"], d["kept_now"], d["decode_index"] = clip(fkept[i], 600), clip(now, 600), i
								c.Violation("again:value-kept-from-an-earlier-decode-changed", d)
							}
						}
					}(fc, sc2, k)
				}
				c.Count("again:ok")
			}},
			{Name: "numbers-and-misuse", Count: n(6000, 360000), Run: func(c *core.Ctx, idx int) {
				// Number accessors against encoding/json's, and the misuse errors (nil / non-pointer target)
				lit := gen.OddNumbers[c.R.Intn(len(gen.OddNumbers))]
				if c.R.Intn(3) == 0 {
					lit = []string{"", "abc", "1e", "0x10", "9223372036854775807", "9223372036854775808", "-9223372036854775808", "1.0", "1e2", "-0", "1e400", "4.9e-324"}[c.R.Intn(12)]
				}
				fn, sn := ij.Number(lit), stdjson.Number(lit)
				ff, fe := fn.Float64()
				sf, se := sn.Float64()
				fi, fie := fn.Int64()
				si, sie := sn.Int64()
				c.Eval(3)
				d := map[string]any{"literal": lit}
				if fn.String() != sn.String() || (fe == nil) != (se == nil) || (fe == nil && ff != sf && !(ff != ff && sf != sf)) || (fie == nil) != (sie == nil) || fi != si {
					d["fork"], d["std"] = fmt.Sprint(ff, fe, fi, fie), fmt.Sprint(sf, se, si, sie)
					c.Violation("number:accessors-differ", d)
					return
				}
				if ij.Delim('[').String() != stdjson.Delim('[').String() || ij.Delim('}').String() != stdjson.Delim('}').String() {
					c.Violation("stream:Delim.String-differs", d)
					return
				}
				text := []byte(`{"a":` + gen.OddNumbers[c.R.Intn(len(gen.OddNumbers))] + `}`)
				var m map[string]any
				for i, target := range []any{nil, m, 7, (*int)(nil), struct{}{}} {
					var e1 error
					pn := mon.Try(func() { e1 = ij.Unmarshal(text, target) })
					e2 := stdjson.Unmarshal(text, target)
					c.Eval(1)
					if pn != nil || (e1 == nil) != (e2 == nil) || (e1 != nil && e1.Error() != e2.Error()) {
						d["target_index"], d["fork_error"], d["std_error"] = i, errText(e1), errText(e2)
						c.Violation("misuse:invalid-unmarshal-target-handled-differently", d)
						return
					}
				}
				c.Count("numbers-and-misuse:ok")
			}},
			{Name: "fork-only-marshalers", Count: n(10000, 600000), Run: func(c *core.Ctx, idx int) {
				// RedirectMarshaler / TrustMarshaler (what the patch package encodes its nodes through): wherever
				// such a value stands - alone, behind a pointer, in a slice, a map, a struct field - the bytes must
				// be those of the value it redirects to / the bytes it wrote, under both escape settings
				v := genGo(c.R, 2)
				esc := c.R.Intn(2) == 0
				var sb bytes.Buffer
				se := stdjson.NewEncoder(&sb)
				se.SetEscapeHTML(esc)
				if se.Encode(v) != nil {
					c.Count("fork-only:inner-value-not-encodable")
					return
				}
				plain := bytes.TrimSuffix(sb.Bytes(), []byte("\n"))
				type holder struct {
					A int
					R redirV
					P *redirV
					T trustV `json:"t"`
				}
				rv, tv := redirV{v}, trustV{plain}
				cases := []struct {
					name string
					val  any
					want string
				}{
					{"redirect", rv, string(plain)},
					{"redirect-pointer", &rv, string(plain)},
					{"redirect-twice", redirV{rv}, string(plain)},
					{"trust", tv, string(plain)},
					{"trust-pointer", &tv, string(plain)},
					{"slice", []any{rv, nil, tv, (*redirV)(nil)}, "[" + string(plain) + ",null," + string(plain) + ",null]"},
					{"map", map[string]any{"k": rv, "t": &tv}, `{"k":` + string(plain) + `,"t":` + string(plain) + `}`},
					{"struct", holder{A: 1, R: rv, T: tv}, `{"A":1,"R":` + string(plain) + `,"P":null,"t":` + string(plain) + `}`},
					{"redirect-to-trust", redirV{tv}, string(plain)},
				}
				for _, tc := range cases {
					var got []byte
					var err error
					pn := mon.Try(func() { got, err = ij.MarshalEscaped(tc.val, esc) })
					c.Eval(1)
					d := map[string]any{"position": tc.name, "inner_value": clip(fmt.Sprintf("%#v", v), 600), "escape_html": esc, "fork": clip(string(got), 800), "expected": clip(tc.want, 800), "error": errText(err)}
					if pn != nil {
						d["panic"] = panicDetail(pn)
						c.Violation("fork-only:"+pn.Sig(), d)
						return
					}
					if err != nil || normBytes(got) != normBytes([]byte(tc.want)) {
						c.Violation("fork-only:"+tc.name+"-does-not-encode-as-the-value-it-stands-for", d)
						return
					}
				}
				c.Count("fork-only:ok")
				c.Nontrivial("fo", fmt.Sprintf("%#v", v), fmt.Sprint(esc))
			}},
			{Name: "typed-basic-targets", Count: n(20000, 1200000), Run: func(c *core.Ctx, idx int) {
				t := fieldTypes[c.R.Intn(len(fieldTypes))]
				text := genTextFor(c.R, t, 3)
				if idx%5 == 0 {
					text = prof.Any(c.R)
				}
				judgeTyped(c, t, text)
			}},
			{Name: "streams", Count: n(20000, 1200000), Run: func(c *core.Ctx, idx int) {
				var sb strings.Builder
				for k := 1 + c.R.Intn(4); k > 0; k-- {
					sb.WriteString(prof.Any(c.R))
					sb.WriteString([]string{" ", "\n", "", "\t\r\n"}[c.R.Intn(4)])
				}
				t := sb.String()
				if idx%4 == 0 {
					t = gen.Mutate(c.R, t, prof.Any(c.R))
				}
				judgeStream(c, t, c.R.Intn(2) == 0)
			}},
		},
	})
}

// sameAsStdEncoder: MarshalEscaped(v, esc) must be what encoding/json's Encoder writes with SetEscapeHTML(esc).
func sameAsStdEncoder(v any, got []byte, esc bool) bool {
	var b bytes.Buffer
	e := stdjson.NewEncoder(&b)
	e.SetEscapeHTML(esc)
	if e.Encode(v) != nil {
		return true // error presence is compared elsewhere
	}
	return normBytes(bytes.TrimSuffix(b.Bytes(), []byte("\n"))) == normBytes(got)
}
