package props

import (
	"strings"

	jp "github.com/evanphx/json-patch/v5"
	"github.com/evanphx/json-patch/v5/verifharness/core"
	"github.com/evanphx/json-patch/v5/verifharness/gen"
	jr "github.com/evanphx/json-patch/v5/verifharness/jsonref"
	"github.com/evanphx/json-patch/v5/verifharness/ref7396"
)

type createFns struct {
	create mergeCall
	merge  mergeCall
	tag    string
}

var v5Create = createFns{jp.CreateMergePatch, jp.MergePatch, ""}

// numbersCarried: every number literal in p occurs in b (numbers are carried over unchanged).
func numbersCarried(p, b *jr.Value) bool {
	lits := map[string]bool{}
	b.Walk("", func(_ string, v *jr.Value) {
		if v.K == jr.Num {
			lits[v.Lit] = true
		}
	})
	ok := true
	p.Walk("", func(_ string, v *jr.Value) {
		if v.K == jr.Num && !lits[v.Lit] {
			ok = false
		}
	})
	return ok
}

// judgeCreateObj checks CreateMergePatch on two objects.
func judgeCreateObj(c *core.Ctx, f createFns, aT, bT string) {
	a, b := mustParse(aT), mustParse(bT)
	pb, err, pn := callMerge(f.create, aT, bT)
	c.Eval(1)
	d := map[string]any{"a": clip(aT, 1500), "b": clip(bT, 1500), "patch": clip(string(pb), 1500), "error": errText(err)}
	if a.HasDup() || b.HasDup() {
		c.Count("out_of_domain")
		return
	}
	if pn != nil {
		d["panic"] = panicDetail(pn)
		c.Violation(f.tag+pn.Sig(), d)
		return
	}
	if err != nil {
		c.Violation(f.tag+"create-fails-on-two-objects", d)
		return
	}
	p, perr := jr.Parse(pb)
	if perr != nil || p.K != jr.Obj {
		c.Violation(f.tag+"patch-is-not-a-json-object", d)
		return
	}
	eq := jr.Equal(a, b, jr.EqMode{})
	if (len(p.Keys) == 0) != eq {
		c.Violation(f.tag+"patch-empty-iff-equal-violated", d)
		return
	}
	if why := ref7396.Minimal(p, a, b); why != "" {
		d["why"] = why
		c.Violation(f.tag+"patch-not-minimal", d)
		return
	}
	if !numbersCarried(p, b) {
		c.Violation(f.tag+"number-literal-not-carried-over", d)
		return
	}
	c.Count("minimal:ok")
	if !eq {
		c.Nontrivial(f.tag, aT, bT)
	}
	if b.HasNullMember() {
		c.Count("b-has-null-member:round-trip-not-compared")
		return
	}
	if got := ref7396.Merge(a, p); !jr.Equal(got, b, jr.EqMode{}) {
		d["reference_merge_result"] = clip(got.String(), 1500)
		c.Violation(f.tag+"round-trip-through-rfc7396-fails", d)
		return
	}
	lb, lerr, lpn := callMerge(f.merge, aT, string(pb))
	c.Eval(1)
	d["library_merge_result"] = clip(string(lb), 1500)
	switch {
	case lpn != nil:
		d["panic"] = panicDetail(lpn)
		c.Violation(f.tag+"round-trip:"+lpn.Sig(), d)
	case lerr != nil:
		d["merge_error"] = lerr.Error()
		c.Violation(f.tag+"round-trip-through-library-errors", d)
	default:
		g, e2 := jr.Parse(lb)
		if e2 != nil || !jr.Equal(g, b, jr.EqMode{}) {
			c.Violation(f.tag+"round-trip-through-library-fails", d)
			return
		}
		c.Count("round-trip:ok")
	}
	if p.Depth() >= 3 {
		c.Count("shape:deep-diff")
	}
	if c.WantSample() && !eq {
		c.Sample(d)
	}
}

func rootKind(v *jr.Value) string {
	switch v.K {
	case jr.Obj:
		return "object"
	case jr.Arr:
		for _, e := range v.A {
			if e.K != jr.Obj {
				return "array-with-non-object"
			}
		}
		return "array-of-objects"
	case jr.Null:
		return "null"
	}
	return "scalar"
}

// judgeCreateAny checks acceptance/rejection by root kinds and, for arrays of
// objects, the element-wise clauses.
func judgeCreateAny(c *core.Ctx, f createFns, aT, bT string) {
	a, b := mustParse(aT), mustParse(bT)
	ka, kb := rootKind(a), rootKind(b)
	if ka == "null" || kb == "null" {
		c.Count("out_of_domain")
		return
	}
	if ka == "object" && kb == "object" {
		judgeCreateObj(c, f, aT, bT)
		return
	}
	pb, err, pn := callMerge(f.create, aT, bT)
	c.Eval(1)
	d := map[string]any{"a": clip(aT, 1500), "b": clip(bT, 1500), "patch": clip(string(pb), 1500), "error": errText(err), "root_kinds": ka + " / " + kb}
	if pn != nil {
		d["panic"] = panicDetail(pn)
		c.Violation(f.tag+pn.Sig(), d)
		return
	}
	accept := ka == "array-of-objects" && kb == "array-of-objects" && len(a.A) == len(b.A)
	c.Count("roots:" + ka + "/" + kb)
	if !accept {
		if err == nil {
			c.Violation(f.tag+"mismatched-roots-accepted:"+ka+"/"+kb, d, nullElementsFinding(f, a, b, pb)...)
		} else {
			c.Count("rejected:ok")
			if pb != nil {
				c.Violation(f.tag+"patch-returned-with-error", d)
			}
		}
		return
	}
	if err != nil {
		c.Violation(f.tag+"create-fails-on-equal-length-arrays-of-objects", d)
		return
	}
	p, perr := jr.Parse(pb)
	if perr != nil || p.K != jr.Arr || len(p.A) != len(a.A) {
		c.Violation(f.tag+"array-patch-malformed", d)
		return
	}
	for i := range a.A {
		if a.A[i].HasDup() || b.A[i].HasDup() {
			continue
		}
		if (len(p.A[i].Keys) == 0) != jr.Equal(a.A[i], b.A[i], jr.EqMode{}) || p.A[i].K != jr.Obj {
			c.Violation(f.tag+"array-element-patch-empty-iff-equal-violated", d)
			return
		}
		if why := ref7396.Minimal(p.A[i], a.A[i], b.A[i]); why != "" {
			d["why"] = why
			c.Violation(f.tag+"array-element-patch-not-minimal", d)
			return
		}
		if !b.A[i].HasNullMember() {
			if !jr.Equal(ref7396.Merge(a.A[i], p.A[i]), b.A[i], jr.EqMode{}) {
				c.Violation(f.tag+"array-element-round-trip-fails", d)
				return
			}
			lb, lerr, lpn := callMerge(f.merge, a.A[i].String(), p.A[i].String())
			c.Eval(1)
			if lpn != nil || lerr != nil {
				c.Violation(f.tag+"array-element-round-trip-through-library-errors", d)
				return
			}
			if g, e2 := jr.Parse(lb); e2 != nil || !jr.Equal(g, b.A[i], jr.EqMode{}) {
				c.Violation(f.tag+"array-element-round-trip-through-library-fails", d)
				return
			}
		}
	}
	c.Count("arrays:ok")
	if len(a.A) > 0 {
		c.Nontrivial(f.tag, aT, bT)
	}
	if c.WantSample() {
		c.Sample(d)
	}
}

func init() {
	n := func(q, t int) func(core.Tier) int {
		return func(tier core.Tier) int {
			if tier == core.Thorough {
				return t
			}
			return q
		}
	}
	prof := gen.Hostile().With(func(p *gen.Profile) { p.Keys = gen.MergeKeys; p.Width = 4; p.ScalarBias = 35 })
	core.Register(&core.Prop{
		ID:    "C03",
		Title: "CreateMergePatch yields a minimal patch that reproduces the target (v5)",
		Rule: "B is obtained from A by k random edits at random depths (small, deep diffs) or drawn independently; numbers beyond float64 precision, 1.0 vs 1, type changes at depth, arrays holding objects, nested empty objects. The patch must be {} exactly when A and B are structurally equal, every member it mentions must differ at that path, removed members must be null, number literals must be B's; " +
			"when B has no null member, applying the patch with the RFC 7396 reference and with the library's MergePatch must give B. Rejection family: ordered pairs of root kinds. non-trivial = accepted pair with A != B; distinct = distinct (A text, B text).",
		Assumptions: []string{"ref7396.Merge / Minimal are correct (self-tested: merge(a, diff(a,b)) = b)", "a null root is outside the stated domain"},
		Setup:       setPoolMode,
		Finish:      poolFinish,
		Floors: func(t core.Tier, m *core.Merged) []string {
			out := poolFloor(m)
			if m.Counts["round-trip:ok"] < 5000 || m.Counts["shape:deep-diff"] < 300 {
				out = append(out, "too few round trips / deep diffs")
			}
			if m.Counts["rejected:ok"] < 200 || m.Counts["arrays:ok"] < 200 {
				out = append(out, "rejection / array clauses exercised too rarely")
			}
			return out
		},
		Families: []core.Family{
			{Name: "universe-object-pairs", Exhaustive: true, Count: func(core.Tier) int { return universeObjN() * universeObjN() }, Run: func(c *core.Ctx, idx int) {
				judgeCreateObj(c, v5Create, universeObjs[idx/len(universeObjs)], universeObjs[idx%len(universeObjs)])
			}},
			{Name: "universe-root-kinds", Exhaustive: true, Count: func(core.Tier) int { return universeN() * universeN() }, Run: func(c *core.Ctx, idx int) {
				a, b := universe[idx/len(universe)], universe[idx%len(universe)]
				if a[0] == '{' && b[0] == '{' {
					return // covered by universe-object-pairs
				}
				judgeCreateAny(c, v5Create, a, b)
			}},
			{Name: "differences-deep-down", Exhaustive: true, Count: func(core.Tier) int { return len(deepDepths) * 2 }, Run: func(c *core.Ctx, idx int) {
				// the difference (a removal, a change, an addition, next to unchanged siblings) lies d levels down
				d := deepDepths[idx/2]
				a := deepWrap(d, `{"keep":1,"drop":2,"chg":3,"o":{"x":1,"y":[1]},"z":"s"}`)
				b := deepWrap(d, `{"keep":1,"chg":4,"o":{"x":1,"y":[1]},"z":"s","new":[1]}`)
				if idx%2 == 1 {
					b = deepWrap(d, `{"keep":1,"drop":2,"chg":3,"o":{"x":1},"z":"s"}`)
				}
				judgeCreateObj(c, v5Create, a, b)
				c.Count("deep-differences:cases")
			}},
			{Name: "edited-objects", Count: n(60000, 4500000), Run: func(c *core.Ctx, idx int) {
				aT := prof.Object(c.R, 1+c.R.Intn(4))
				a := mustParse(aT)
				b := editObject(c.R, prof, a, c.R.Intn(4))
				bT := prof.Respell(c.R, b, c.R.Intn(2) == 0)
				judgeCreateObj(c, v5Create, aT, bT)
			}},
			{Name: "independent-objects", Count: n(20000, 1500000), Run: func(c *core.Ctx, idx int) {
				judgeCreateObj(c, v5Create, prof.Object(c.R, 3), prof.Object(c.R, 3))
			}},
			{Name: "names-that-differ-by-case-folding-or-normalisation", Count: n(8000, 400000), Run: func(c *core.Ctx, idx int) {
				near := prof.With(func(p *gen.Profile) { p.Keys = gen.NearMissKeys })
				aT := near.Object(c.R, 1+c.R.Intn(3))
				bT := near.Object(c.R, 1+c.R.Intn(3))
				if idx%2 == 0 {
					bT = near.Respell(c.R, editObject(c.R, near, mustParse(aT), 1+c.R.Intn(3)), c.R.Intn(2) == 0)
				}
				judgeCreateObj(c, v5Create, aT, bT)
				c.Count("near-miss-names:cases")
			}},
			{Name: "arrays-and-root-kinds", Count: n(20000, 1200000), Run: func(c *core.Ctx, idx int) {
				mk := func() (string, []string) {
					k := c.R.Intn(4)
					var el []string
					for i := 0; i < k; i++ {
						if c.R.Intn(12) == 0 {
							el = append(el, prof.Scalar(c.R))
						} else {
							el = append(el, prof.Object(c.R, 2))
						}
					}
					return "[" + strings.Join(el, ",") + "]", el
				}
				aT, ael := mk()
				bT := aT
				switch c.R.Intn(6) {
				case 0:
					bT, _ = mk()
				case 1:
					bT = prof.Any(c.R)
				case 2:
					aT = prof.Any(c.R)
				default:
					// same length, each element edited
					var el []string
					for _, e := range ael {
						v := mustParse(e)
						if v.K == jr.Obj {
							v = editObject(c.R, prof, v, c.R.Intn(3))
						}
						el = append(el, v.String())
					}
					bT = "[" + strings.Join(el, ",") + "]"
				}
				if c.R.Intn(4) == 0 {
					aT = " \n" + aT + "\t"
				}
				judgeCreateAny(c, v5Create, aT, bT)
			}},
		},
	})
}

// nullElementsFinding matches known finding F02: an array pair is accepted
// although it holds null elements, because a null element - like a null root,
// which the property puts outside its domain - is read as an empty object.
// The match is exact: with every null element replaced by {} the pair must be
// two equal-length arrays of objects and the returned patch must be the
// minimal patch of that pair.
func nullElementsFinding(f createFns, a, b *jr.Value, pb []byte) []string {
	if f.tag != "" || a.K != jr.Arr || b.K != jr.Arr || len(a.A) != len(b.A) {
		return nil
	}
	sub := func(v *jr.Value) *jr.Value {
		c := v.Clone()
		for i, e := range c.A {
			if e.K == jr.Null {
				c.A[i] = &jr.Value{K: jr.Obj}
			}
		}
		return c
	}
	a2, b2 := sub(a), sub(b)
	if rootKind(a2) != "array-of-objects" || rootKind(b2) != "array-of-objects" {
		return nil
	}
	p, err := jr.Parse(pb)
	if err != nil || p.K != jr.Arr || len(p.A) != len(a2.A) {
		return nil
	}
	for i := range a2.A {
		if p.A[i].K != jr.Obj || ref7396.Minimal(p.A[i], a2.A[i], b2.A[i]) != "" {
			return nil
		}
		if (len(p.A[i].Keys) == 0) != jr.Equal(a2.A[i], b2.A[i], jr.EqMode{}) {
			return nil
		}
	}
	return []string{"F02"}
}
