package props

import (
	"math/rand"
	"strings"

	"github.com/evanphx/json-patch/v5/verifharness/gen"
	jr "github.com/evanphx/json-patch/v5/verifharness/jsonref"
)

// genMergePatchFor derives a merge patch from a document: members are
// deleted (null), replaced, merged into recursively, changed in type, and new
// members (also with nested nulls, and arrays holding objects with null
// members) are added, at every depth.
func genMergePatchFor(r *rand.Rand, p *gen.Profile, doc *jr.Value) string {
	if doc.K != jr.Obj || r.Intn(12) == 0 {
		return p.Any(r)
	}
	var parts []string
	used := map[string]bool{}
	for i, k := range doc.Keys {
		if used[k] {
			continue
		}
		used[k] = true
		v := doc.Vals[i]
		var pv string
		switch n := r.Intn(10); {
		case n < 3:
			continue // untouched
		case n == 3:
			pv = "null"
		case n <= 5 && v.K == jr.Obj:
			pv = genMergePatchFor(r, p, v)
		case n == 6:
			pv = p.Object(r, 2) // object over whatever is there
		case n == 7:
			pv = p.Array(r, 2)
		default:
			pv = p.Value(r, 2)
		}
		parts = append(parts, gen.SpellString(r, k, p.Spell, false)+":"+pv)
	}
	for i := r.Intn(3); i > 0; i-- {
		k := p.Keys[r.Intn(len(p.Keys))]
		if used[k] {
			continue
		}
		used[k] = true
		parts = append(parts, gen.SpellString(r, k, p.Spell, false)+":"+p.Value(r, 3))
	}
	r.Shuffle(len(parts), func(i, j int) { parts[i], parts[j] = parts[j], parts[i] })
	return "{" + strings.Join(parts, ",") + "}"
}

// deepWrap nests bottom beneath d levels of {"a": ... } (one sibling member every 97 levels, so that the
// levels are not all alike).
func deepWrap(d int, bottom string) string {
	var sb strings.Builder
	for i := 0; i < d; i++ {
		if i%97 == 96 {
			sb.WriteString(`{"s":1,"a":`)
		} else {
			sb.WriteString(`{"a":`)
		}
	}
	sb.WriteString(bottom)
	sb.WriteString(strings.Repeat("}", d))
	return sb.String()
}

// deepDepths: around every recursion bound somebody might put into a recursive walk (and the quadratic cost of
// lazy re-parsing keeps 8000 levels within a few seconds).
var deepDepths = []int{3, 31, 32, 33, 63, 64, 65, 127, 128, 129, 150, 199, 200, 201, 202, 255, 256, 257, 500, 511, 512, 513, 999, 1000, 1001, 1023, 1024, 1025, 2000, 2500, 4095, 4096, 4097, 4999, 5000, 5001, 5002, 8000}

// deepOpsCase: six operations of every kind on members that lie d levels down.
func deepOpsCase(d int, variant int) *SeqCase {
	doc := deepWrap(d, `{"keep":1,"drop":2,"chg":3,"o":{"x":1,"y":[1,2]},"z":"s"}`)
	b := strings.Repeat("/a", d)
	texts := []string{
		OpText("test", b+"/keep", "", "1", true),
		OpText("replace", b+"/chg", "", `{"n":[4]}`, true),
		OpText("remove", b+"/drop", "", "", false),
		OpText("add", b+"/new", "", `[1,{"k":null}]`, true),
		OpText("move", b+"/p", b+"/o", "", false),
		OpText("copy", b+"/q", b+"/p/y", "", false),
		OpText("test", b+"/q/1", "", "2", true),
	}
	if variant == 1 {
		// the same, but the whole lower half is first moved to a new member of the root and back
		h := strings.Repeat("/a", d/2+1)
		texts = append([]string{OpText("move", "/tmp", h, "", false), OpText("move", h, "/tmp", "", false)}, texts...)
	}
	sc := &SeqCase{DocText: doc, Doc: mustParse(doc), OpTexts: texts}
	for _, t := range texts {
		sc.Ops = append(sc.Ops, opFromText(t))
	}
	return sc
}

// editObject returns a variant of object a obtained by k random edits at
// random depths (for CreateMergePatch: small, deep differences).
func editObject(r *rand.Rand, p *gen.Profile, a *jr.Value, edits int) *jr.Value {
	b := a.Clone()
	for ; edits > 0; edits-- {
		// walk to a random object
		cur := b
		for cur.K == jr.Obj && len(cur.Keys) > 0 && r.Intn(2) == 0 {
			i := r.Intn(len(cur.Keys))
			if cur.Vals[i].K != jr.Obj {
				break
			}
			cur = cur.Vals[i]
		}
		if cur.K != jr.Obj {
			continue
		}
		switch n := r.Intn(6); {
		case n == 0 && len(cur.Keys) > 0: // delete
			i := r.Intn(len(cur.Keys))
			cur.Keys = append(cur.Keys[:i:i], cur.Keys[i+1:]...)
			cur.Vals = append(cur.Vals[:i:i], cur.Vals[i+1:]...)
		case n <= 2 && len(cur.Keys) > 0: // change value (maybe type)
			i := r.Intn(len(cur.Keys))
			cur.Vals[i] = mustParse(p.Value(r, 2))
		case n == 3 && len(cur.Keys) > 0: // one-point mutation deep inside
			i := r.Intn(len(cur.Keys))
			cur.Vals[i] = p.MutateOnePoint(r, cur.Vals[i])
		default: // add
			k := p.Keys[r.Intn(len(p.Keys))]
			if x, _ := cur.Get(k); x == nil {
				cur.Keys = append(cur.Keys, k)
				cur.Vals = append(cur.Vals, mustParse(p.Value(r, 2)))
			}
		}
	}
	return b
}
