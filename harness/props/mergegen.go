package props

import (
	"math/rand"
	"strings"

	"github.com/evanphx/json-patch/v5/verifharness/gen"
	jr "github.com/evanphx/json-patch/v5/verifharness/jsonref"
)

// genMergePatchFor derives a merge patch from a document: members are
// deleted (null), replaced, merged into recursively, changed in type, and new
// members (also with nested nulls, and arrays holding objects with null
// members) are added, at every depth.
func genMergePatchFor(r *rand.Rand, p *gen.Profile, doc *jr.Value) string {
	if doc.K != jr.Obj || r.Intn(12) == 0 {
		return p.Any(r)
	}
	var parts []string
	used := map[string]bool{}
	for i, k := range doc.Keys {
		if used[k] {
			continue
		}
		used[k] = true
		v := doc.Vals[i]
		var pv string
		switch n := r.Intn(10); {
		case n < 3:
			continue // untouched
		case n == 3:
			pv = "null"
		case n <= 5 && v.K == jr.Obj:
			pv = genMergePatchFor(r, p, v)
		case n == 6:
			pv = p.Object(r, 2) // object over whatever is there
		case n == 7:
			pv = p.Array(r, 2)
		default:
			pv = p.Value(r, 2)
		}
		parts = append(parts, gen.SpellString(r, k, p.Spell, false)+":"+pv)
	}
	for i := r.Intn(3); i > 0; i-- {
		k := p.Keys[r.Intn(len(p.Keys))]
		if used[k] {
			continue
		}
		used[k] = true
		parts = append(parts, gen.SpellString(r, k, p.Spell, false)+":"+p.Value(r, 3))
	}
	r.Shuffle(len(parts), func(i, j int) { parts[i], parts[j] = parts[j], parts[i] })
	return "{" + strings.Join(parts, ",") + "}"
}

// editObject returns a variant of object a obtained by k random edits at
// random depths (for CreateMergePatch: small, deep differences).
func editObject(r *rand.Rand, p *gen.Profile, a *jr.Value, edits int) *jr.Value {
	b := a.Clone()
	for ; edits > 0; edits-- {
		// walk to a random object
		cur := b
		for cur.K == jr.Obj && len(cur.Keys) > 0 && r.Intn(2) == 0 {
			i := r.Intn(len(cur.Keys))
			if cur.Vals[i].K != jr.Obj {
				break
			}
			cur = cur.Vals[i]
		}
		if cur.K != jr.Obj {
			continue
		}
		switch n := r.Intn(6); {
		case n == 0 && len(cur.Keys) > 0: // delete
			i := r.Intn(len(cur.Keys))
			cur.Keys = append(cur.Keys[:i:i], cur.Keys[i+1:]...)
			cur.Vals = append(cur.Vals[:i:i], cur.Vals[i+1:]...)
		case n <= 2 && len(cur.Keys) > 0: // change value (maybe type)
			i := r.Intn(len(cur.Keys))
			cur.Vals[i] = mustParse(p.Value(r, 2))
		case n == 3 && len(cur.Keys) > 0: // one-point mutation deep inside
			i := r.Intn(len(cur.Keys))
			cur.Vals[i] = p.MutateOnePoint(r, cur.Vals[i])
		default: // add
			k := p.Keys[r.Intn(len(p.Keys))]
			if x, _ := cur.Get(k); x == nil {
				cur.Keys = append(cur.Keys, k)
				cur.Vals = append(cur.Vals, mustParse(p.Value(r, 2)))
			}
		}
	}
	return b
}
