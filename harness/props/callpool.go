package props

import (
	"encoding/base64"
	"encoding/json"
	"errors"
	"fmt"
	"os"
	"os/exec"
	"reflect"
	"strings"
	"unsafe"

	jp "github.com/evanphx/json-patch/v5"
	ij "github.com/evanphx/json-patch/v5/internal/json"
	"github.com/evanphx/json-patch/v5/verifharness/core"
	"github.com/evanphx/json-patch/v5/verifharness/gen"
	jr "github.com/evanphx/json-patch/v5/verifharness/jsonref"
	"github.com/evanphx/json-patch/v5/verifharness/mon"
	ref "github.com/evanphx/json-patch/v5/verifharness/ref6902"
)

// A PoolCall is one API call of the C09/C10 call pool. All byte arguments are
// indices into the pool's shared input buffers, and Apply-type calls name one
// of the pool's shared, already decoded Patch values.
type PoolCall struct {
	API    string `json:"api"`
	A      int    `json:"a"` // input buffer index (doc / first argument)
	B      int    `json:"b"` // second argument (-1: none)
	Patch  int    `json:"patch"`
	Indent string `json:"indent,omitempty"`
	Opts   V5Opts `json:"opts"`
	Class  string `json:"class"` // succeeds | fails | malformed (how it was generated)
	// SharedOpt >= 0: the call passes one of the pool's shared *ApplyOptions values (same
	// settings as Opts) instead of a fresh one: an options value is an argument like any
	// other, it may be reused for any number of calls and must come back unchanged.
	SharedOpt int `json:"shared_opt"`
}

type CallResult struct {
	OK      bool   `json:"ok"`
	Err     string `json:"err,omitempty"`
	Classes string `json:"classes,omitempty"`
	Out     string `json:"out,omitempty"` // base64
	Nil     bool   `json:"nil_out,omitempty"`
	Bool    bool   `json:"bool,omitempty"`
	Ops     string `json:"ops,omitempty"` // DecodePatch: accessor transcript
	Panic   string `json:"panic,omitempty"`
}

func (r CallResult) OutBytes() []byte { b, _ := base64.StdEncoding.DecodeString(r.Out); return b }

type CallPool struct {
	Inputs      []string   // texts of the shared input buffers
	PatchInputs []int      // which input buffers are the shared patches
	Calls       []PoolCall // the calls

	// live state of a worker
	bufs    []*mon.Guarded
	shared  []*jp.ApplyOptions
	sharedS []jp.ApplyOptions // their values when the pool was opened
	patches []jp.Patch
	guards  []*mon.Guarded // re-homed raw messages of the patches
	// Aliasing: non-empty when a decoded patch changed because the buffer it was decoded from was overwritten
	Aliasing string
	snaps    []patchSnap
}

// BuildPool derives the pool from (seed, pool id) alone.
func BuildPool(seed int64, id int) *CallPool {
	r := core.NewRand(seed, "callpool", "pool", id)
	p := &CallPool{}
	addIn := func(s string) int {
		for i, t := range p.Inputs {
			if t == s {
				return i
			}
		}
		p.Inputs = append(p.Inputs, s)
		return len(p.Inputs) - 1
	}
	prof := gen.Hostile().With(func(q *gen.Profile) { q.Keys = c01Keys })
	mprof := gen.Hostile().With(func(q *gen.Profile) { q.Keys = gen.MergeKeys; q.Width = 4 })
	// shared patches with the documents they were generated against
	type pd struct{ patch, doc int }
	var pds []pd
	for i := 0; i < 6; i++ {
		cfg := &SeqCfg{Prof: prof, MinOps: 1, MaxOps: 7, MissRate: 0, RootOK: true}
		if i%3 == 2 {
			cfg.MissRate = 50 // a patch that fails on its own document
			cfg.ContinueAfterFail = true
		}
		sc := GenSeq(r, cfg, ref.Opts{NegIdx: true})
		pi := addIn(sc.Patch())
		p.PatchInputs = append(p.PatchInputs, pi)
		pds = append(pds, pd{len(p.PatchInputs) - 1, addIn(sc.DocText)})
	}
	otherDocs := []int{addIn(prof.Root(r)), addIn(prof.Root(r)), addIn(`{}`), addIn(`[]`)}
	malformed := []int{addIn(gen.Mutate(r, prof.Root(r), "")), addIn(`{"a":`), addIn(``), addIn(`[1,2`), addIn("\xff{}")}
	for _, x := range pds {
		for _, api := range []string{"Apply", "ApplyIndent", "ApplyWithOptions"} {
			o := V5Opts{NegIdx: true, EscapeHTML: true}
			if api == "ApplyWithOptions" {
				o = V5Opts{NegIdx: r.Intn(2) == 0, EscapeHTML: r.Intn(2) == 0, AllowMissing: r.Intn(2) == 0, EnsurePath: r.Intn(3) == 0, Limit: []int64{0, 0, 40, 100000}[r.Intn(4)]}
			}
			ind := ""
			if api == "ApplyIndent" {
				ind = []string{" ", "\t", "  "}[r.Intn(3)]
			}
			// the same Patch on its own document, on other documents, on malformed input
			so := -1
			if api == "ApplyWithOptions" && r.Intn(3) > 0 {
				so = r.Intn(len(sharedOptSets))
				o = sharedOptSets[so]
			}
			p.Calls = append(p.Calls, PoolCall{API: api, A: x.doc, B: -1, Patch: x.patch, Indent: ind, Opts: o, Class: "own-document", SharedOpt: so})
			p.Calls = append(p.Calls, PoolCall{API: api, A: otherDocs[r.Intn(len(otherDocs))], B: -1, Patch: x.patch, Indent: ind, Opts: o, Class: "other-document", SharedOpt: so})
			p.Calls = append(p.Calls, PoolCall{API: api, A: malformed[r.Intn(len(malformed))], B: -1, Patch: x.patch, Indent: ind, Opts: o, Class: "malformed", SharedOpt: so})
		}
	}
	// patches that fail part-way (after operations that succeeded and left their traces: copies
	// accounted, removes done, members added), with each of the shared option values
	fdoc := addIn(`{"a":{"b":[1,2,3],"c":"x<y"},"d":null,"arr":[{"k":1},{"k":2}],"s":"0123456789012345678901234567890123456789"}`)
	for _, ft := range []string{
		`[{"op":"copy","from":"/a","path":"/a2"},{"op":"test","path":"/a/c","value":"nope"}]`,
		`[{"op":"copy","from":"/s","path":"/s2"},{"op":"copy","from":"/s","path":"/s3"},{"op":"copy","from":"/s","path":"/s4"}]`,
		`[{"op":"copy","from":"/arr/0","path":"/arr/-"},{"op":"move","from":"/nope","path":"/x"}]`,
		`[{"op":"remove","path":"/nope"},{"op":"move","from":"/a/","path":"/y"},{"op":"remove","path":"/alsonope/deeper"}]`,
		`[{"op":"add","path":"/n/e/w","value":{"k":null}},{"op":"move","from":"/arr/5","path":"/z"}]`,
		`[{"op":"move","from":"/arr/-2","path":"/first"},{"op":"replace","path":"/q/r","value":1}]`,
		`[{"op":"copy","from":"/a/b","path":"/a/b/-"},{"op":"remove","path":"/arr/7"},{"op":"test","path":"/d","value":1}]`,
	} {
		pi := addIn(ft)
		p.PatchInputs = append(p.PatchInputs, pi)
		pidx := len(p.PatchInputs) - 1
		for so := range sharedOptSets {
			p.Calls = append(p.Calls, PoolCall{API: "ApplyWithOptions", A: fdoc, B: -1, Patch: pidx, Opts: sharedOptSets[so], Class: "fails-part-way", SharedOpt: so})
		}
		p.Calls = append(p.Calls, PoolCall{API: "Apply", A: fdoc, B: -1, Patch: pidx, Opts: V5Opts{NegIdx: true, EscapeHTML: true}, Class: "fails-part-way", SharedOpt: -1})
	}
	for _, at := range []string{
		`[{"op":"add","path":"/v","value":{"h":"<&><&>","n":[1,2]}},{"op":"copy","from":"/v","path":"/w"}]`,
		`[{"op":"replace","path":"/d","value":["a<b",{"x":"&"}]},{"op":"remove","path":"/d/0"},{"op":"copy","from":"/d","path":"/d2"}]`,
	} {
		pi := addIn(at)
		p.PatchInputs = append(p.PatchInputs, pi)
		pidx := len(p.PatchInputs) - 1
		for so := range sharedOptSets {
			p.Calls = append(p.Calls, PoolCall{API: "ApplyWithOptions", A: fdoc, B: -1, Patch: pidx, Opts: sharedOptSets[so], Class: "adds-then-copies", SharedOpt: so})
		}
		p.Calls = append(p.Calls, PoolCall{API: "Apply", A: fdoc, B: -1, Patch: pidx, Opts: V5Opts{NegIdx: true, EscapeHTML: true}, Class: "adds-then-copies", SharedOpt: -1})
	}
	// a document whose result is larger than 64 KiB (retained and re-checked like every other result)
	{
		var sb strings.Builder
		sb.WriteString(`{"big":[`)
		for i := 0; i < 1800; i++ {
			if i > 0 {
				sb.WriteByte(',')
			}
			fmt.Fprintf(&sb, `{"i":%d,"s":"xxxxxxxxxxxxxxxxxxxxxxxx<%d>"}`, i, i)
		}
		sb.WriteString(`],"k":1}`)
		bdoc := addIn(sb.String())
		pi := addIn(`[{"op":"replace","path":"/k","value":2},{"op":"test","path":"/big/7/i","value":7}]`)
		p.PatchInputs = append(p.PatchInputs, pi)
		pidx := len(p.PatchInputs) - 1
		p.Calls = append(p.Calls, PoolCall{API: "Apply", A: bdoc, B: -1, Patch: pidx, Opts: V5Opts{NegIdx: true, EscapeHTML: true}, Class: "large-result", SharedOpt: -1})
		p.Calls = append(p.Calls, PoolCall{API: "ApplyWithOptions", A: bdoc, B: -1, Patch: pidx, Opts: sharedOptSets[2], Class: "large-result", SharedOpt: 2})
		p.Calls = append(p.Calls, PoolCall{API: "ApplyIndent", A: bdoc, B: -1, Patch: pidx, Indent: " ", Opts: V5Opts{NegIdx: true, EscapeHTML: true}, Class: "large-result", SharedOpt: -1})
	}
	// pointers whose tokens need unescaping, used by several operations and by several patches
	edoc := addIn(`{"m~1":"old","m/":"other","a~0":{"x":1},"~1":[1,2],"/":{"~":0}}`)
	for _, et := range []string{
		`[{"op":"replace","path":"/m~01","value":"new"},{"op":"test","path":"/m~01","value":"new"},{"op":"test","path":"/m~1","value":"other"}]`,
		`[{"op":"add","path":"/a~00/y","value":2},{"op":"test","path":"/a~00/y","value":2},{"op":"copy","from":"/~01/0","path":"/~1/~0"}]`,
		`[{"op":"test","path":"/m~01","value":"old"},{"op":"move","from":"/~01/1","path":"/a~00/z"},{"op":"remove","path":"/m~01"}]`,
	} {
		pi := addIn(et)
		p.PatchInputs = append(p.PatchInputs, pi)
		pidx := len(p.PatchInputs) - 1
		p.Calls = append(p.Calls, PoolCall{API: "Apply", A: edoc, B: -1, Patch: pidx, Opts: V5Opts{NegIdx: true, EscapeHTML: true}, Class: "escaped-pointers", SharedOpt: -1})
		p.Calls = append(p.Calls, PoolCall{API: "ApplyWithOptions", A: edoc, B: -1, Patch: pidx, Opts: sharedOptSets[0], Class: "escaped-pointers", SharedOpt: 0})
	}
	// merge patches with several deletions on one level, some of them of members the first patch names
	for _, mp := range [][2]string{
		{`{"a":1,"c":{"d":1,"f":2}}`, `{"a":null,"b":null,"c":{"d":null,"e":null,"g":null}}`},
		{`{"a":1}`, `{"a":null,"b":null,"z":null,"y":null}`},
		{`{"k":{"a":1,"b":2,"c":3}}`, `{"k":{"a":null,"x":null,"b":null,"y":null}}`},
	} {
		a, b := addIn(mp[0]), addIn(mp[1])
		p.Calls = append(p.Calls, PoolCall{API: "MergeMergePatches", A: a, B: b, Patch: -1, Class: "several-deletions", SharedOpt: -1})
		p.Calls = append(p.Calls, PoolCall{API: "MergePatch", A: a, B: b, Patch: -1, Class: "several-deletions", SharedOpt: -1})
	}
	for i := 0; i < 8; i++ {
		docT := mprof.Any(r)
		d := addIn(docT)
		pt := addIn(genMergePatchFor(r, mprof, mustParse(docT)))
		p.Calls = append(p.Calls, PoolCall{API: "MergePatch", A: d, B: pt, Patch: -1, Class: "derived", SharedOpt: -1})
		p.Calls = append(p.Calls, PoolCall{API: "MergePatch", A: d, B: malformed[r.Intn(len(malformed))], Patch: -1, Class: "malformed", SharedOpt: -1})
		o1 := mprof.Object(r, 3)
		a := addIn(o1)
		b := addIn(genMergePatchFor(r, mprof, mustParse(o1)))
		p.Calls = append(p.Calls, PoolCall{API: "MergeMergePatches", A: a, B: b, Patch: -1, Class: "derived", SharedOpt: -1})
		p.Calls = append(p.Calls, PoolCall{API: "MergeMergePatches", A: malformed[r.Intn(len(malformed))], B: b, Patch: -1, Class: "malformed", SharedOpt: -1})
		e := addIn(mprof.Respell(r, editObject(r, mprof, mustParse(o1), 1+r.Intn(3)), true))
		p.Calls = append(p.Calls, PoolCall{API: "CreateMergePatch", A: a, B: e, Patch: -1, Class: "edited", SharedOpt: -1})
		p.Calls = append(p.Calls, PoolCall{API: "CreateMergePatch", A: a, B: otherDocs[3], Patch: -1, Class: "fails", SharedOpt: -1})
		p.Calls = append(p.Calls, PoolCall{API: "CreateMergePatch", A: malformed[r.Intn(len(malformed))], B: e, Patch: -1, Class: "malformed", SharedOpt: -1})
		p.Calls = append(p.Calls, PoolCall{API: "Equal", A: a, B: addIn(mprof.Respell(r, mustParse(o1), true)), Patch: -1, Class: "equal", SharedOpt: -1})
		p.Calls = append(p.Calls, PoolCall{API: "Equal", A: a, B: e, Patch: -1, Class: "unequal", SharedOpt: -1})
		p.Calls = append(p.Calls, PoolCall{API: "Equal", A: malformed[r.Intn(len(malformed))], B: e, Patch: -1, Class: "malformed", SharedOpt: -1})
	}
	// every root kind on either side of the two-argument entry points (a null / scalar / array
	// root takes its own branch in each of them, and what such a branch leaves undecided is
	// filled from whatever the pooled decoder state held before)
	roots := []int{addIn(`null`), addIn(` null `), addIn(`[]`), addIn(`[{"a":null},null]`), addIn(`"s"`), addIn(`1.0`), addIn(`true`), addIn(`{}`)}
	objs := []int{addIn(mprof.Object(r, 2)), addIn(`{"k":{"l":null},"m":[null]}`)}
	for _, rt := range roots {
		for _, ob := range objs {
			for _, api := range []string{"MergePatch", "MergeMergePatches", "CreateMergePatch", "Equal"} {
				p.Calls = append(p.Calls, PoolCall{API: api, A: rt, B: ob, Patch: -1, Class: "root-kind-first", SharedOpt: -1})
				p.Calls = append(p.Calls, PoolCall{API: api, A: ob, B: rt, Patch: -1, Class: "root-kind-second", SharedOpt: -1})
			}
		}
	}
	// Apply given a null or scalar root: refused, or the result cannot be encoded - a failure inside the encoder
	// that must leave nothing behind for the next call
	for _, pt := range []string{`[]`, `[{"op":"copy","from":"","path":"/a"}]`, `[{"op":"test","path":"","value":null}]`, `[{"op":"add","path":"","value":null}]`} {
		pi := addIn(pt)
		p.PatchInputs = append(p.PatchInputs, pi)
		pidx := len(p.PatchInputs) - 1
		for _, rt := range roots[:6] {
			p.Calls = append(p.Calls, PoolCall{API: "Apply", A: rt, B: -1, Patch: pidx, Opts: V5Opts{NegIdx: true, EscapeHTML: true}, Class: "apply-to-null-or-scalar-root", SharedOpt: -1})
		}
		p.Calls = append(p.Calls, PoolCall{API: "ApplyWithOptions", A: roots[0], B: -1, Patch: pidx, Opts: sharedOptSets[1], Class: "apply-to-null-or-scalar-root", SharedOpt: 1})
		p.Calls = append(p.Calls, PoolCall{API: "Apply", A: objs[1], B: -1, Patch: pidx, Opts: V5Opts{NegIdx: true, EscapeHTML: true}, Class: "apply-after-root-failures", SharedOpt: -1})
	}
	// a document that spells a member name twice (what its value is, nobody says - but the same call gives the
	// same bytes every time), and losing members
	ddoc := addIn(`{"a":1,"c":3,"d":4,"e":5,"f":6,"g":{"x":1,"y":2,"x":3,"z":4,"w":5},"a":2}`)
	for _, dt := range []string{`[{"op":"remove","path":"/a"}]`, `[{"op":"move","from":"/a","path":"/zz"}]`, `[{"op":"remove","path":"/g/x"},{"op":"add","path":"/g/n","value":1}]`, `[{"op":"remove","path":"/c"}]`} {
		pi := addIn(dt)
		p.PatchInputs = append(p.PatchInputs, pi)
		pidx := len(p.PatchInputs) - 1
		p.Calls = append(p.Calls, PoolCall{API: "Apply", A: ddoc, B: -1, Patch: pidx, Opts: V5Opts{NegIdx: true, EscapeHTML: true}, Class: "repeated-member-names", SharedOpt: -1})
		p.Calls = append(p.Calls, PoolCall{API: "ApplyIndent", A: ddoc, B: -1, Patch: pidx, Indent: " ", Opts: V5Opts{NegIdx: true, EscapeHTML: true}, Class: "repeated-member-names", SharedOpt: -1})
	}
	// the array form of CreateMergePatch, with several positions that cannot be diffed
	for _, ap := range [][2]string{{`[1,2]`, `[3,4]`}, {`[{"a":1},2,3,{"b":1}]`, `[{"a":2},4,5,{"b":null}]`}, {`[{"a":1},{"b":2},{"c":3}]`, `[{"a":2},{"b":2},{"c":{"d":4}}]`}} {
		a, b := addIn(ap[0]), addIn(ap[1])
		p.Calls = append(p.Calls, PoolCall{API: "CreateMergePatch", A: a, B: b, Patch: -1, Class: "array-form", SharedOpt: -1})
		p.Calls = append(p.Calls, PoolCall{API: "CreateMergePatch", A: b, B: a, Patch: -1, Class: "array-form", SharedOpt: -1})
	}
	for _, pi := range p.PatchInputs {
		p.Calls = append(p.Calls, PoolCall{API: "DecodePatch", A: pi, B: -1, Patch: -1, Class: "valid", SharedOpt: -1})
	}
	p.Calls = append(p.Calls, PoolCall{API: "DecodePatch", A: malformed[1], B: -1, Patch: -1, Class: "malformed", SharedOpt: -1})
	p.Calls = append(p.Calls, PoolCall{API: "DecodePatch", A: addIn(`[{"op":"add","path":"/a"}]`), B: -1, Patch: -1, Class: "wrong-shape"})
	p.Calls = append(p.Calls, PoolCall{API: "DecodePatch", A: addIn(`[{"op":"bogus","path":"/a","value":{"k":[1,2]}}]`), B: -1, Patch: -1, Class: "wrong-shape"})
	return p
}

// sharedOptSets: the settings of the pool's shared *ApplyOptions values.
var sharedOptSets = []V5Opts{
	{NegIdx: true, EscapeHTML: true, AllowMissing: true, Limit: 60},
	{NegIdx: false, EscapeHTML: false, EnsurePath: true, Limit: 0},
	{NegIdx: true, EscapeHTML: false, AllowMissing: true, EnsurePath: true, Limit: 100000},
}

// Open puts the inputs into write-protected memory, decodes the shared
// patches and re-homes their raw messages into write-protected memory too.
func (p *CallPool) Open() error {
	for _, so := range sharedOptSets {
		lo := so.Lib()
		p.shared = append(p.shared, lo)
		p.sharedS = append(p.sharedS, *lo)
	}
	for i, t := range p.Inputs {
		// every third buffer is a record cut out of a larger one: it has spare capacity, holding the next
		// record, inside the protected pages - an append to the argument faults like any other write
		var slack []byte
		if i%3 == 1 {
			slack = []byte("\n{\"next\":[1,2]}\n")[:1+i%14]
		}
		g, err := mon.NewGuardedSlack([]byte(t), slack)
		if err != nil {
			return err
		}
		p.bufs = append(p.bufs, g)
	}
	for _, pi := range p.PatchInputs {
		// the caller's buffer is reused as soon as DecodePatch has returned: nothing of the decoded Patch - not its
		// values, not its member names - may follow the buffer
		tb := []byte(p.Inputs[pi])
		pt, err := jp.DecodePatch(tb)
		if err != nil {
			return fmt.Errorf("pool patch does not decode: %v", err)
		}
		for i := range tb {
			tb[i] = 'X'
		}
		if want := mustParse(p.Inputs[pi]); p.Aliasing == "" {
			for oi, op := range pt {
				w, _ := want.A[oi].Get("op")
				pw, _ := want.A[oi].Get("path")
				gp, _ := op.Path()
				if op.Kind() != w.S || gp != pw.S {
					p.Aliasing = fmt.Sprintf("patch %s, operation %d: after the input buffer was overwritten Kind() is %q and Path() %q (decoded from %q and %q)", clip(p.Inputs[pi], 200), oi, op.Kind(), gp, w.S, pw.S)
					break
				}
			}
		}
		for _, op := range pt {
			for _, rm := range op {
				if rm == nil {
					continue
				}
				g, err := mon.NewGuarded([]byte(*rm))
				if err != nil {
					return err
				}
				p.guards = append(p.guards, g)
				*rm = ij.RawMessage(g.B)
			}
		}
		p.patches = append(p.patches, pt)
		p.snaps = append(p.snaps, snapPatch(pt))
	}
	return nil
}

type patchSnap struct {
	n    int
	keys []string
	ptrs []uintptr
	data []uintptr
	lens []int
	text []string
}

// snapPatch records the structure of a Patch: member names, the identity of
// every *RawMessage, and the address, length and content of its bytes.
func snapPatch(pt jp.Patch) patchSnap {
	s := patchSnap{n: len(pt)}
	for i, op := range pt {
		var ks []string
		for k := range op {
			ks = append(ks, k)
		}
		sortStrings(ks)
		for _, k := range ks {
			rm := op[k]
			s.keys = append(s.keys, fmt.Sprintf("%d/%s", i, k))
			s.ptrs = append(s.ptrs, uintptr(unsafe.Pointer(rm)))
			if rm == nil || len(*rm) == 0 {
				s.data = append(s.data, 0)
				s.lens = append(s.lens, 0)
				s.text = append(s.text, "")
				continue
			}
			s.data = append(s.data, uintptr(unsafe.Pointer(&(*rm)[0])))
			s.lens = append(s.lens, len(*rm))
			s.text = append(s.text, string(*rm))
		}
	}
	return s
}

func sortStrings(s []string) {
	for i := 1; i < len(s); i++ {
		for j := i; j > 0 && s[j] < s[j-1]; j-- {
			s[j], s[j-1] = s[j-1], s[j]
		}
	}
}

// CheckPatches compares every shared Patch with its snapshot.
func (p *CallPool) CheckPatches() string {
	for i, pt := range p.patches {
		if !reflect.DeepEqual(snapPatch(pt), p.snaps[i]) {
			return fmt.Sprintf("shared Patch %d was modified (input %q)", i, clip(p.Inputs[p.PatchInputs[i]], 300))
		}
	}
	return ""
}

// CheckOptions compares every shared *ApplyOptions value with what it held
// when the pool was opened (all fields, exported or not).
func (p *CallPool) CheckOptions() string {
	for i, lo := range p.shared {
		if !reflect.DeepEqual(*lo, p.sharedS[i]) {
			return fmt.Sprintf("shared ApplyOptions %d was modified: %+v, was %+v", i, *lo, p.sharedS[i])
		}
	}
	return ""
}

// CheckInputs compares every shared input buffer with its text (a write
// would already have faulted; this catches a harness mistake).
func (p *CallPool) CheckInputs() string {
	for i, g := range p.bufs {
		if string(g.B) != p.Inputs[i] {
			return fmt.Sprintf("input buffer %d changed", i)
		}
		if !g.SlackIntact() {
			return fmt.Sprintf("the bytes behind input buffer %d (its spare capacity) changed", i)
		}
	}
	return ""
}

func (p *CallPool) arg(i int) []byte {
	if i < 0 {
		return nil
	}
	return p.bufs[i].B
}

// Run executes one call of the pool under the panic monitor. retained, if
// non-nil, receives the slice the library returned (not a copy).
func (p *CallPool) Run(c PoolCall, retained *[]byte) CallResult {
	var res CallResult
	var out []byte
	var err error
	pn := mon.Try(func() {
		switch c.API {
		case "Apply":
			out, err = p.patches[c.Patch].Apply(p.arg(c.A))
		case "ApplyIndent":
			out, err = p.patches[c.Patch].ApplyIndent(p.arg(c.A), c.Indent)
		case "ApplyWithOptions":
			lo := c.Opts.Lib()
			if c.SharedOpt >= 0 {
				lo = p.shared[c.SharedOpt]
			}
			out, err = p.patches[c.Patch].ApplyWithOptions(p.arg(c.A), lo)
		case "MergePatch":
			out, err = jp.MergePatch(p.arg(c.A), p.arg(c.B))
		case "MergeMergePatches":
			out, err = jp.MergeMergePatches(p.arg(c.A), p.arg(c.B))
		case "CreateMergePatch":
			out, err = jp.CreateMergePatch(p.arg(c.A), p.arg(c.B))
		case "Equal":
			res.Bool = jp.Equal(p.arg(c.A), p.arg(c.B))
		case "DecodePatch":
			var pt jp.Patch
			pt, err = jp.DecodePatch(p.arg(c.A))
			if err == nil {
				var sb strings.Builder
				for _, op := range pt {
					pa, e1 := op.Path()
					fr, e2 := op.From()
					v, e3 := op.ValueInterface()
					fmt.Fprintf(&sb, "%s|%q|%v|%q|%v|%#v|%v;", op.Kind(), pa, e1 != nil, fr, e2 != nil, v, e3 != nil)
				}
				res.Ops = sb.String()
			} else if pt != nil {
				res.Ops = "patch returned with error"
			}
		}
	})
	if pn != nil {
		res.Panic = pn.Sig() + " " + pn.Value
		if pn.Fault {
			res.Panic = "MEMORY-FAULT (write to a protected input, or read past its end) " + res.Panic + "\n" + pn.Stack
		}
		return res
	}
	res.OK = err == nil
	if err != nil {
		res.Err = err.Error()
		var ce *jp.AccumulatedCopySizeError
		res.Classes = fmt.Sprintf("%v/%v/%v", errors.Is(err, jp.ErrTestFailed), errors.Is(err, jp.ErrMissing), errors.As(err, &ce))
	}
	res.Nil = out == nil
	res.Out = base64.StdEncoding.EncodeToString(out)
	if retained != nil {
		*retained = out
	}
	return res
}

// SameResult compares a result with the result of the same call run alone:
// same success or error, same JSON value, and the same bytes for Apply,
// ApplyIndent, CreateMergePatch and Equal (the merge functions iterate a map,
// so the order of members they add is unspecified).
func SameResult(api string, got, alone CallResult) string {
	if got.Panic != "" || alone.Panic != "" {
		if got.Panic != alone.Panic {
			return "panic: " + got.Panic + " vs alone: " + alone.Panic
		}
		return ""
	}
	if got.OK != alone.OK || got.Err != alone.Err || got.Classes != alone.Classes {
		return fmt.Sprintf("success/error differs: ok=%v err=%q classes=%s, alone: ok=%v err=%q classes=%s", got.OK, got.Err, got.Classes, alone.OK, alone.Err, alone.Classes)
	}
	if got.Bool != alone.Bool || got.Ops != alone.Ops || got.Nil != alone.Nil {
		return "result differs"
	}
	if got.Out == alone.Out {
		return ""
	}
	switch api {
	case "MergePatch", "MergeMergePatches":
		a, e1 := jr.Parse(got.OutBytes())
		b, e2 := jr.Parse(alone.OutBytes())
		if e1 == nil && e2 == nil && jr.Equal(a, b, jr.EqMode{}) {
			return ""
		}
		return "JSON value differs"
	}
	return "output bytes differ"
}

// AloneResults runs every call of the pool alone, each in a fresh process,
// and returns the results. This is the reference of C09 and C10.
func AloneResults(seed int64, id int, n int) ([]CallResult, error) {
	self, err := os.Executable()
	if err != nil {
		return nil, err
	}
	if pb := os.Getenv("JPV_PLAINBIN"); pb != "" {
		self = pb // the race-detector build asks the plain build for the alone results
	}
	res := make([]CallResult, n)
	type job struct {
		i   int
		err error
	}
	sem := make(chan struct{}, 2)
	done := make(chan job, n)
	for i := 0; i < n; i++ {
		go func(i int) {
			sem <- struct{}{}
			defer func() { <-sem }()
			cmd := exec.Command(self, "alone", fmt.Sprint(seed), fmt.Sprint(id), fmt.Sprint(i))
			cmd.Env = append(os.Environ(), "GORACE=halt_on_error=0")
			out, err := cmd.Output()
			if err == nil {
				err = json.Unmarshal(out, &res[i])
			}
			done <- job{i, err}
		}(i)
	}
	for i := 0; i < n; i++ {
		if j := <-done; j.err != nil {
			return nil, fmt.Errorf("alone run of call %d: %v", j.i, j.err)
		}
	}
	return res, nil
}

// RunAlone is the body of `jpverif alone <seed> <pool> <call>`.
func RunAlone(seed int64, id, call int) int {
	mon.EnableFaultPanics()
	p := BuildPool(seed, id)
	if err := p.Open(); err != nil || call >= len(p.Calls) {
		fmt.Fprintln(os.Stderr, "alone:", err)
		return 2
	}
	r := p.Run(p.Calls[call], nil)
	b, _ := json.Marshal(r)
	os.Stdout.Write(b)
	return 0
}
