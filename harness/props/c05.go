package props

import (
	jp "github.com/evanphx/json-patch/v5"
	"github.com/evanphx/json-patch/v5/verifharness/core"
	"github.com/evanphx/json-patch/v5/verifharness/gen"
	jr "github.com/evanphx/json-patch/v5/verifharness/jsonref"
	"github.com/evanphx/json-patch/v5/verifharness/mon"
	ref "github.com/evanphx/json-patch/v5/verifharness/ref6902"
	"github.com/evanphx/json-patch/v5/verifharness/ref7396"
)

// mergeOrderOK checks C05's MergePatch clause on one object of the result:
// members that survive from doc keep doc's relative order and come before
// members the patch added. The mutual order of new members is unspecified.
func mergeOrderOK(doc, patch, res *jr.Value, path string) string {
	if res.K != jr.Obj || doc == nil || doc.K != jr.Obj {
		return ""
	}
	last := -1
	seenNew := false
	for i, k := range res.Keys {
		_, di := doc.Get(k)
		if di < 0 {
			seenNew = true
			continue
		}
		if seenNew {
			return "surviving member " + path + "/" + k + " placed after a newly added member"
		}
		if di < last {
			return "surviving member " + path + "/" + k + " out of document order"
		}
		last = di
		// recurse where the patch merged into (or did not touch) the member
		var pv *jr.Value
		if patch != nil && patch.K == jr.Obj {
			pv, _ = patch.Get(k)
		}
		dv := doc.Vals[di]
		switch {
		case pv == nil:
			// untouched: must be identical, order and literals included
			if !jr.Equal(dv, res.Vals[i], jr.EqMode{Ordered: true}) {
				return "untouched member " + path + "/" + k + " changed order or literals"
			}
		case pv.K == jr.Obj && dv.K == jr.Obj:
			if why := mergeOrderOK(dv, pv, res.Vals[i], path+"/"+k); why != "" {
				return why
			}
		}
	}
	return ""
}

func c05Apply(c *core.Ctx, sc *SeqCase, o V5Opts) {
	c05ApplyRef(c, sc, o, o.Ref())
}

func c05ApplyRef(c *core.Ctx, sc *SeqCase, o V5Opts, ro ref.Opts) {
	want := ref.Eval(sc.Doc, sc.Ops, ro)
	res := ApplyV5(sc.DocText, sc.Patch(), o, "")
	if want.Soft != "" && res.Panic == nil && res.Err != nil {
		// outside C14's stated domain: an error decides nothing about order
		c.Count("soft:" + want.Soft + ":library-returns-error")
		return
	}
	if judgeApply(c, sc, o, res, want, cmpMode{ordered: true}) && want.Doc != nil {
		if want.Doc.Size() >= 4 {
			c.Nontrivial(sc.Canon(), o.String())
		}
		if res.Events != nil && res.Events.Ended && res.Events.Inv.BadKeys+res.Events.Inv.BadWhich > 0 {
			d := sc.Describe()
			d["invariants"] = res.Events.Inv
			c.Violation("internal-key-list-disagrees-with-members", d)
		}
		c.CountN("h4.objects_walked", int64(res.Events.Inv.Objects))
	}
	if c.WantSample() {
		d := sc.Describe()
		d["library_output"] = clip(string(res.Out), 400)
		c.Sample(d)
	}
}

func init() {
	// documents with >= 4 members per object in shuffled order, odd number spellings
	prof := gen.Hostile().With(func(p *gen.Profile) { p.Keys = c01Keys; p.Width = 7; p.ScalarBias = 40 })
	seqCfg := &SeqCfg{Prof: prof, MinOps: 1, MaxOps: 10, MissRate: 4, RootOK: true,
		Kinds: []string{"add", "add", "remove", "replace", "move", "move", "copy", "test"}}
	n := func(q, t int) func(core.Tier) int {
		return func(tier core.Tier) int {
			if tier == core.Thorough {
				return t
			}
			return q
		}
	}
	core.Register(&core.Prop{
		ID:    "C05",
		Title: "Member order and literals of untouched data are preserved (v5)",
		Rule: "Apply: the output is parsed by the independent ordered parser and compared member-by-member, in order, number literals as text, with the reference evaluation (which implements the documented order rules: survivors keep their relative order, created members are appended in creation order, replace/add-on-existing keep the position). " +
			"Empty patch: output must equal the input ordered and literal-exact. MergePatch: surviving members in document order ahead of new ones, untouched members identical, all literals kept. " +
			"non-trivial = in-domain, succeeded, document of >= 4 values; distinct = distinct (document, patch, options).",
		Assumptions: []string{"reference evaluator's order model is the documented one (DESIGN section 6 C05)", "mutual order of members newly added by MergePatch is unspecified and not compared"},
		Setup:       setPoolMode,
		Finish:      poolFinish,
		Floors: func(t core.Tier, m *core.Merged) []string {
			out := poolFloor(m)
			if m.Counts["agree:ok"] < 1000 {
				out = append(out, "fewer than 1000 successful ordered comparisons")
			}
			if m.Counts["h4.objects_walked"] == 0 {
				out = append(out, "ApplyEnd hook (invariant walk) never fired")
			}
			return out
		},
		Families: []core.Family{
			{Name: "ordered-sequences", Count: n(50000, 1500000), Run: func(c *core.Ctx, idx int) {
				o := V5Opts{NegIdx: c.R.Intn(2) == 0, EscapeHTML: c.R.Intn(2) == 0, EnsurePath: c.R.Intn(8) == 0}
				c05Apply(c, GenSeq(c.R, seqCfg, o.Ref()), o)
			}},
			{Name: "copies-of-large-values-then-edits", Count: n(8000, 240000), Run: func(c *core.Ctx, idx int) {
				// a document spelled exactly as the encoder spells it (no whitespace, canonical escapes) holding a value
				// of a kilobyte or more; it is copied, then something inside the source or inside the copy is edited:
				// the other one must keep its members, their order and its literals
				esc := c.R.Intn(2) == 0
				ep := prof.With(func(p *gen.Profile) {
					p.WS = 0
					p.Spell = gen.SpellEncOff
					if esc {
						p.Spell = gen.SpellEncOn
					}
					p.Wide = 400
					p.Width = 5
				})
				o := V5Opts{NegIdx: true, EscapeHTML: esc}
				sc := &SeqCase{Opts: o.Ref()}
				sc.DocText = `{"big":` + ep.Object(c.R, 2) + `,"big2":` + ep.Array(c.R, 2) + `,"k":1}`
				sc.Doc = mustParse(sc.DocText)
				e := ref.New(sc.Doc, o.Ref())
				src := []string{"/big", "/big2"}[c.R.Intn(2)]
				push := func(op ref.Op, text string) {
					sc.Ops = append(sc.Ops, op)
					sc.OpTexts = append(sc.OpTexts, text)
					snap := e.Root.Clone()
					if e.Step(op) != ref.OK {
						e.Root = snap
					}
				}
				push(ref.Op{Kind: "copy", From: src, Path: "/cp"}, OpText("copy", "/cp", src, "", false))
				cfg := &SeqCfg{Prof: ep.With(func(p *gen.Profile) { p.Wide = 0 }), MissRate: 0, RootOK: false, Kinds: []string{"add", "remove", "replace", "move"}}
				for k := 1 + c.R.Intn(4); k > 0; k-- {
					op, text := GenOp(c.R, e, cfg)
					push(op, text)
				}
				c05Apply(c, sc, o)
				c.Count("large-copies:cases")
			}},
			{Name: "operations-deep-down", Exhaustive: true, Count: func(core.Tier) int { return len(deepDepths) * 2 }, Run: func(c *core.Ctx, idx int) {
				c05Apply(c, deepOpsCase(deepDepths[idx/2], idx%2), V5Opts{NegIdx: true, EscapeHTML: idx%4 < 2})
				c.Count("deep:cases")
			}},
			{Name: "ensure-through-null-members", Count: n(10000, 300000), Run: func(c *core.Ctx, idx int) {
				// EnsurePathExistsOnAdd through object members whose value is null: the member is given a
				// container as its value (add on an existing member) and must keep its place among its siblings
				o := V5Opts{NegIdx: true, EscapeHTML: c.R.Intn(2) == 0, EnsurePath: true}
				ro := o.Ref()
				ro.NullMemberIsMissing = true
				np := prof.With(func(p *gen.Profile) {
					p.Strings = []string{"s"}
					p.Numbers = []string{"1.0", "1e400"}
					p.ScalarBias = 55
					p.Keys = []string{"a", "b", "c", "d", "e", "f", "m~n"}
				})
				sc := &SeqCase{Opts: ro}
				// every third scalar becomes null
				v := mustParse(np.Root(c.R))
				k := 0
				v.Walk("", func(_ string, x *jr.Value) {
					if x.K != jr.Obj && x.K != jr.Arr {
						if k%3 == 0 {
							*x = jr.Value{K: jr.Null}
						}
						k++
					}
				})
				sc.DocText = v.String()
				sc.Doc = mustParse(sc.DocText)
				e := ref.New(sc.Doc, ro)
				cfg := *seqCfg
				cfg.Prof = np
				for i := 1 + c.R.Intn(4); i > 0; i-- {
					var nulls []string
					e.Root.Walk("", func(ptr string, x *jr.Value) {
						if x.K == jr.Null && ptr != "" {
							nulls = append(nulls, ptr)
						}
					})
					var op ref.Op
					var text string
					if len(nulls) > 0 && c.R.Intn(4) > 0 {
						pth := nulls[c.R.Intn(len(nulls))] + []string{"/x", "/x/y", "/0", "/-", "/k/0"}[c.R.Intn(5)]
						op = ref.Op{Kind: "add", Path: pth, Value: mustParse(`"v"`), HasValue: true}
						text = OpText("add", pth, "", `"v"`, true)
					} else {
						op, text = GenOp(c.R, e, &cfg)
					}
					sc.Ops = append(sc.Ops, op)
					sc.OpTexts = append(sc.OpTexts, text)
					snap := e.Root.Clone()
					if e.Step(op) != ref.OK {
						e.Root = snap
						break
					}
				}
				c.Count("ensure-through-null:cases")
				c05ApplyRef(c, sc, o, ro)
			}},
			{Name: "same-name-churn", Count: n(10000, 300000), Run: func(c *core.Ctx, idx int) {
				// remove/add/replace/move of the same few names of one object
				o := V5Opts{NegIdx: true, EscapeHTML: true}
				cfg := *seqCfg
				cfg.Prof = prof.With(func(p *gen.Profile) { p.Keys = []string{"a", "b", "c", "d", "e"}; p.Depth = 2; p.Width = 5 })
				cfg.MissRate = 25
				cfg.MaxOps = 14
				c05Apply(c, GenSeq(c.R, &cfg, o.Ref()), o)
			}},
			{Name: "empty-patch-identity", Count: n(40000, 1000000), Run: func(c *core.Ctx, idx int) {
				p := prof
				if idx%3 == 0 {
					p = prof.With(func(p *gen.Profile) { p.Lone = true })
				}
				doc := p.Root(c.R)
				o := V5Opts{NegIdx: true, EscapeHTML: idx%2 == 0}
				res := ApplyV5(doc, "[]", o, "")
				c.Eval(1)
				in := mustParse(doc)
				if res.Panic != nil {
					c.Violation(res.Panic.Sig(), map[string]any{"doc": doc, "panic": panicDetail(res.Panic)})
					return
				}
				if res.Err != nil || res.DecodeErr != nil {
					c.Violation("empty-patch-fails", map[string]any{"doc": doc, "error": errText(res.Err) + errText(res.DecodeErr)})
					return
				}
				got, err := jr.Parse(res.Out)
				if err != nil || !jr.Equal(in, got, jr.EqMode{Ordered: true}) {
					c.Violation("empty-patch-changes-order-or-literals", map[string]any{"doc": doc, "output": string(res.Out), "options": o.String()})
					return
				}
				if in.Size() >= 4 {
					c.Nontrivial(doc)
				}
				c.Count("identity:ok")
				if c.WantSample() {
					c.Sample(map[string]any{"doc": clip(doc, 300), "output": clip(string(res.Out), 300)})
				}
			}},
			{Name: "merge-order", Count: n(40000, 1200000), Run: func(c *core.Ctx, idx int) {
				mp := prof.With(func(p *gen.Profile) { p.Keys = []string{"a", "b", "c", "d", "e", "x<y", "m~n"}; p.Width = 6 })
				docT := mp.Object(c.R, 3)
				doc := mustParse(docT)
				patT := genMergePatchFor(c.R, mp, doc)
				pat := mustParse(patT)
				var out []byte
				var err error
				pn := mon.Try(func() { out, err = jp.MergePatch([]byte(docT), []byte(patT)) })
				c.Eval(1)
				d := map[string]any{"doc": docT, "patch": patT, "output": string(out), "error": errText(err)}
				if pn != nil {
					d["panic"] = panicDetail(pn)
					c.Violation(pn.Sig(), d)
					return
				}
				if err != nil {
					c.Violation("merge-fails-on-wellformed-input", d)
					return
				}
				got, perr := jr.Parse(out)
				if perr != nil {
					c.Violation("merge-output-not-json", d)
					return
				}
				want := ref7396.Merge(doc, pat)
				d["reference"] = want.String()
				if !jr.Equal(want, got, jr.EqMode{}) {
					c.Violation("merge-value-or-literal-mismatch", d)
					return
				}
				if why := mergeOrderOK(doc, pat, got, ""); why != "" {
					d["why"] = why
					c.Violation("merge-order", d)
					return
				}
				c.Count("merge-order:ok")
				if got.Size() >= 4 {
					c.Nontrivial(docT, patT)
				}
				if c.WantSample() {
					c.Sample(d)
				}
			}},
		},
	})
}
