package props

import (
	"errors"
	"fmt"
	"strconv"
	"strings"

	jpl "github.com/evanphx/json-patch"
	jp "github.com/evanphx/json-patch/v5"
	"github.com/evanphx/json-patch/v5/verifharness/core"
	"github.com/evanphx/json-patch/v5/verifharness/gen"
	jr "github.com/evanphx/json-patch/v5/verifharness/jsonref"
	"github.com/evanphx/json-patch/v5/verifharness/mon"
	ref "github.com/evanphx/json-patch/v5/verifharness/ref6902"
	"github.com/evanphx/json-patch/v5/verifharness/refenc"
)

type LegacyResult struct {
	DecodeErr error
	Out       []byte
	Err       error
	Panic     *mon.Panic
}

// ApplyLegacy runs the legacy (v4) package; its options are package
// variables, set and restored around the call (workers are single-threaded
// processes, so nothing else can observe them).
func ApplyLegacy(doc, patch string, neg bool, limit int64, indent string) LegacyResult {
	var res LegacyResult
	savedNeg, savedLim := jpl.SupportNegativeIndices, jpl.AccumulatedCopySizeLimit
	jpl.SupportNegativeIndices, jpl.AccumulatedCopySizeLimit = neg, limit
	defer func() { jpl.SupportNegativeIndices, jpl.AccumulatedCopySizeLimit = savedNeg, savedLim }()
	res.Panic = mon.Try(func() {
		p, err := jpl.DecodePatch([]byte(patch))
		if err != nil {
			res.DecodeErr = err
			return
		}
		if indent == "" && len(doc)%2 == 0 {
			res.Out, res.Err = p.Apply([]byte(doc)) // documented as ApplyIndent(doc, "")
		} else {
			res.Out, res.Err = p.ApplyIndent([]byte(doc), indent)
		}
	})
	if res.Panic == nil && res.DecodeErr == nil && core.Hash64(doc, patch)%2 == 0 {
		// the same decoded Patch value a second time (a Patch is reusable): same bytes, same error
		var o1, o2 []byte
		var e1, e2 error
		res.Panic = mon.Try(func() {
			p, _ := jpl.DecodePatch([]byte(patch))
			if indent == "" && len(doc)%2 == 0 {
				o1, e1 = p.Apply([]byte(doc))
				o2, e2 = p.Apply([]byte(doc))
			} else {
				o1, e1 = p.ApplyIndent([]byte(doc), indent)
				o2, e2 = p.ApplyIndent([]byte(doc), indent)
			}
		})
		if res.Panic == nil && (string(o1) != string(o2) || errText(e1) != errText(e2)) {
			res.Panic = &mon.Panic{Deviation: true, Class: "second-application-of-the-same-Patch-differs", Site: "legacy Apply",
				Value: fmt.Sprintf("first application returned (%s, %q), the second application of the same Patch value (%s, %q)", clip(string(o1), 300), errText(e1), clip(string(o2), 300), errText(e2)),
				Entry: "legacy Apply", Stack: "(no stack: two applications were compared)"}
		}
	}
	if res.Panic == nil {
		res.Panic = retainResult("legacy Apply", res.Out)
	}
	return res
}

// c12Seq: encoder-spelled documents with values of many sizes, sequences of
// copies mixed with large adds/moves/replaces (which must not count).
func c12Seq(c *core.Ctx, esc bool, legacy bool) *SeqCase {
	spell := gen.SpellEncOff
	if esc {
		spell = gen.SpellEncOn
	}
	keys := c01Keys
	strs := append([]string{}, gen.HostileStrings...)
	if legacy {
		keys = gen.PlainKeys
		strs = []string{"", "s", "x<y>&z", "a b", "é😀", "hello"}
	}
	// some long strings whose size depends on HTML escaping
	long := ""
	for i := 1 + c.R.Intn(200); i > 0; i-- {
		long += []string{"<", "ab", "&", "é", ">", "xyz"}[c.R.Intn(6)]
	}
	strs = append(strs, long)
	prof := gen.Hostile().With(func(p *gen.Profile) { p.Keys = keys; p.Strings = strs; p.WS = 0; p.Spell = spell })
	o := ref.Opts{NegIdx: true, Legacy: legacy}
	cfg := &SeqCfg{Prof: prof, MinOps: 1, MaxOps: 8, MissRate: 6, ContinueAfterFail: false, RootOK: !legacy,
		Kinds: []string{"copy", "copy", "copy", "copy", "add", "move", "replace", "test", "remove"}}
	return GenSeq(c.R, cfg, o)
}

// c12AnySeq: documents in arbitrary spelling (escapes of every form, raw
// < > & and U+2028/9, whitespace at every gap), so that the size of a copy
// is not the length of its source text.
func c12AnySeq(c *core.Ctx) *SeqCase {
	strs := append([]string{}, gen.HostileStrings...)
	long := ""
	for i := 1 + c.R.Intn(60); i > 0; i-- {
		long += []string{"<", "ab", "&", "é", ">", "xyz", "\u2028", " "}[c.R.Intn(8)]
	}
	strs = append(strs, long, "<", "a&b")
	prof := gen.Hostile().With(func(p *gen.Profile) { p.Keys = c01Keys; p.Strings = strs; p.WS = 30; p.Spell = gen.SpellRandom })
	// RootOK: the root may be replaced (add / replace with path "") before the copies
	cfg := &SeqCfg{Prof: prof, MinOps: 1, MaxOps: 7, MissRate: 6, RootOK: true,
		Kinds: []string{"copy", "copy", "copy", "copy", "add", "move", "replace", "test", "remove"}}
	return GenSeq(c.R, cfg, ref.Opts{NegIdx: true})
}

// canonDest names the location at which a copy/add placed its value, as a
// strict pointer into the document after the operation.
func canonDest(after *jr.Value, path string) (string, bool) {
	if path == "" || path[0] != '/' {
		return "", false
	}
	toks := strings.Split(path[1:], "/")
	cur := after
	canon := ""
	for n, tok := range toks {
		last := n == len(toks)-1
		switch cur.K {
		case jr.Obj:
			canon += "/" + tok
		case jr.Arr:
			ln := len(cur.A)
			switch {
			case tok == "-" && last:
				tok = strconv.Itoa(ln - 1)
			case strings.HasPrefix(tok, "-"):
				// negative indices count from the end (of the array as it is after the operation)
				v, err := strconv.Atoi(tok)
				if err != nil || ln+v < 0 {
					return "", false
				}
				tok = strconv.Itoa(ln + v)
			}
			canon += "/" + tok
		default:
			return "", false
		}
		nx := cur.Resolve("/" + tok)
		if nx == nil {
			return "", false
		}
		cur = nx
	}
	return canon, true
}

// outputSpellingSizes measures every accounted copy of the sequence "as it is
// spelled in the output": the patch is applied up to and including that copy
// (no limit, same options) and the length of the text found at the copy's
// destination in the library's output is taken. A copied null may count 0 or 4.
// ok is false when a prefix of an applicable sequence does not apply or the
// destination is not found - deviations that the caller reports.
func outputSpellingSizes(c *core.Ctx, sc *SeqCase, o V5Opts) (sizes [][2]int, why string) {
	o.Limit = 0
	want := ref.Eval(sc.Doc, sc.Ops, o.Ref())
	e := ref.New(sc.Doc, o.Ref())
	step := 0
	for _, cp := range want.Copies {
		if cp.Index == want.FailIndex {
			sizes = append(sizes, [2]int{-1, -1})
			continue
		}
		for step <= cp.Index {
			e.Step(sc.Ops[step])
			step++
		}
		pre := ApplyV5(sc.DocText, PatchText(sc.OpTexts[:cp.Index+1]), o, "")
		c.Eval(1)
		if pre.Panic != nil || pre.DecodeErr != nil || pre.Err != nil {
			return nil, fmt.Sprintf("applying the applicable prefix of %d operations fails: %v", cp.Index+1, pre.Err)
		}
		root, err := jr.Parse(pre.Out)
		if err != nil {
			return nil, "output of the prefix is not JSON"
		}
		dest, ok := canonDest(e.Root, sc.Ops[cp.Index].Path)
		if !ok {
			return nil, "harness: destination of an accounted copy not resolvable in the reference: " + sc.Ops[cp.Index].Path + " in " + clip(e.Root.String(), 300) + " patch " + clip(sc.Patch(), 600)
		}
		node := root.Resolve(dest)
		if node == nil {
			return nil, "copied value not found at " + dest + " in the output of the prefix"
		}
		n := node.End - node.Off
		if cp.Value.K == jr.Null {
			sizes = append(sizes, [2]int{0, n})
		} else {
			sizes = append(sizes, [2]int{n, n})
		}
	}
	if sizes == nil {
		sizes = [][2]int{}
	}
	return sizes, ""
}

// per worker: cases that expected copy-accounting events and saw none, and the events seen at all
var (
	c12Pending    []map[string]any
	c12PendingN   int
	c12EventsSeen int
)

func chooseLimit(c *core.Ctx, lv limitVerdict) int64 {
	switch n := c.R.Intn(10); {
	case n == 0:
		return 0
	case n == 1:
		return []int64{1, 7, 1000000000}[c.R.Intn(3)]
	case len(lv.Hi) > 0:
		t := lv.Hi[c.R.Intn(len(lv.Hi))] + int64(c.R.Intn(3)) - 1
		if t < 0 {
			t = 0
		}
		return t
	}
	return 100
}

func init() {
	n := func(q, t int) func(core.Tier) int {
		return func(tier core.Tier) int {
			if tier == core.Thorough {
				return t
			}
			return q
		}
	}
	judgeV5 := func(c *core.Ctx, sc *SeqCase, o V5Opts, viaDefault bool) {
		lv := evalWithLimit(sc, o)
		var res ApplyResult
		if viaDefault {
			// the package default, read by NewApplyOptions inside Apply()
			saved := jp.AccumulatedCopySizeLimit
			jp.AccumulatedCopySizeLimit = o.Limit
			lo := jp.NewApplyOptions()
			jp.AccumulatedCopySizeLimit = saved
			if lo.AccumulatedCopySizeLimit != o.Limit {
				c.Violation("package-default-limit-not-used-by-NewApplyOptions", map[string]any{"limit": o.Limit})
			}
			o.EscapeHTML, o.NegIdx = lo.EscapeHTML, lo.SupportNegativeIndices
			lv = evalWithLimit(sc, o)
			jp.AccumulatedCopySizeLimit = o.Limit
			res.Panic = mon.Try(func() {
				p, err := jp.DecodePatch([]byte(sc.Patch()))
				if err != nil {
					res.DecodeErr = err
					return
				}
				res.Out, res.Err = p.Apply([]byte(sc.DocText))
			})
			jp.AccumulatedCopySizeLimit = saved
		} else {
			res = ApplyV5(sc.DocText, sc.Patch(), o, "")
		}
		c.Eval(1)
		d := sc.Describe()
		d["options"] = o.String()
		d["via_package_default"] = viaDefault
		d["library_error"] = errText(res.Err)
		d["reference_copy_totals"] = lv.Hi
		if lv.Want.OutOfDom != "" {
			c.Count("out_of_domain")
			return
		}
		if res.Panic != nil {
			d["panic"] = panicDetail(res.Panic)
			c.Violation(res.Panic.Sig(), d)
			return
		}
		if len(lv.Hi) > 0 {
			c.Nontrivial(sc.Canon(), o.String())
		}
		// H2: the running total at every copy (decides all limits at once)
		if !viaDefault {
			ev := res.Events.Copies
			d["hook_copy_events"] = ev
			for i, e := range ev {
				if i >= len(lv.Sizes) {
					c.Violation("copy-accounted-that-reference-does-not-account", d)
					return
				}
				if lv.Sizes[i][1] < 0 {
					continue // size unknown: the copy is inapplicable for another reason
				}
				if e.Size < lv.Sizes[i][0] || e.Size > lv.Sizes[i][1] || (e.Size != lv.Sizes[i][0] && e.Size != lv.Sizes[i][1]) {
					c.Violation("copy-size-differs-from-output-spelling", d)
					return
				}
				if e.Total < lv.Lo[i] || e.Total > lv.Hi[i] {
					c.Violation("running-copy-total-wrong", d)
					return
				}
				c.Count("h2.copy_events")
			}
			// every accounted copy of the reference that was executed must have produced an event
			executed := len(res.Events.Done)
			wantEvents := 0
			for _, cp := range lv.Want.Copies {
				if cp.Index < executed {
					wantEvents++
				}
			}
			c12EventsSeen += len(ev)
			if len(ev) != wantEvents {
				d["expected_events"] = wantEvents
				if len(ev) == 0 {
					// no event at all: either this copy was not accounted or the hook call site is gone;
					// decided at the end of the worker (a hook that never fired anywhere is no verdict)
					if len(c12Pending) < 5 {
						c12Pending = append(c12Pending, d)
					}
					c12PendingN++
					return
				}
				c.Violation("copy-not-accounted", d)
				return
			}
		}
		if lv.Ambiguous {
			c.Count("ambiguous-limit")
			return
		}
		var ce *jp.AccumulatedCopySizeError
		isLimit := errors.As(res.Err, &ce)
		switch {
		case lv.Want.Cause == ref.CopyLimit && lv.Want.Doc == nil && !isLimit:
			c.Violation("no-AccumulatedCopySizeError-although-total-exceeds-limit", d)
		case isLimit && !(lv.Want.Doc == nil && lv.Want.Cause == ref.CopyLimit):
			c.Violation("AccumulatedCopySizeError-although-total-within-limit", d)
		case isLimit && res.Out != nil:
			c.Violation("document-returned-with-limit-error", d)
		case isLimit && o.Limit == 0:
			c.Violation("limit-0-does-not-disable-the-check", d)
		case isLimit:
			c.Count("limit:enforced")
		case lv.Want.Doc != nil && res.Err != nil:
			c.Violation("within-limit-patch-fails", d)
		default:
			c.Count("limit:not-reached")
		}
		if c.WantSample() {
			c.Sample(d)
		}
	}
	legacyLimitCase := func(c *core.Ctx, sc *SeqCase) {
		o := V5Opts{NegIdx: true, EscapeHTML: true}
		lv := evalWithLimit(sc, o)
		o.Limit = chooseLimit(c, lv)
		lv = evalWithLimit(sc, o)
		res := ApplyLegacy(sc.DocText, sc.Patch(), true, o.Limit, "")
		c.Eval(1)
		d := sc.Describe()
		d["limit"] = o.Limit
		d["library_error"] = errText(res.Err)
		d["reference_copy_totals"] = lv.Hi
		if lv.Want.OutOfDom != "" || lv.Ambiguous {
			c.Count("out_of_domain")
			return
		}
		if res.Panic != nil {
			// panics of the legacy package are C04/C18 matters; they decide nothing about the limit
			c.Count("legacy:panic-skipped")
			return
		}
		if len(lv.Hi) > 0 {
			c.Nontrivial("legacy", sc.Canon(), fmt.Sprint(o.Limit))
		}
		var ce *jpl.AccumulatedCopySizeError
		isLimit := errors.As(res.Err, &ce)
		wantLimit := lv.Want.Doc == nil && lv.Want.Cause == ref.CopyLimit
		// v4 differences that decide nothing about the limit: any other failure kind
		if !wantLimit && lv.Want.Doc == nil {
			if isLimit {
				// The sequence ends at the operation the reference rejects. If that operation is a copy
				// whose source resolves, the library may account it before it discovers that the copy is
				// inapplicable: "a copy that is inapplicable for another reason decides nothing". That is
				// the case exactly when the total in the error is the reference total plus that value.
				last := sc.Ops[lv.Want.FailIndex]
				var tot, lim int64
				fmt.Sscanf(afterText(res.Err.Error(), "copy is "), "%d, exceeding the limit %d", &tot, &lim)
				var base int64
				if len(lv.Hi) > 0 {
					base = lv.Hi[len(lv.Hi)-1]
				}
				if last.Kind == "copy" && tot > base && tot-base <= 1<<20 {
					c.Count("legacy:limit-vs-other-failure-ambiguous")
					return
				}
				c.Violation("legacy:AccumulatedCopySizeError-although-total-within-limit", d)
			}
			return
		}
		switch {
		case wantLimit && !isLimit:
			c.Violation("legacy:no-AccumulatedCopySizeError-although-total-exceeds-limit", d)
		case !wantLimit && isLimit:
			c.Violation("legacy:AccumulatedCopySizeError-although-total-within-limit", d)
		case isLimit && res.Out != nil:
			c.Violation("legacy:document-returned-with-limit-error", d)
		case isLimit:
			c.Count("legacy:limit:enforced")
		default:
			c.Count("legacy:limit:not-reached")
		}
		if c.WantSample() {
			c.Sample(d)
		}
	}
	core.Register(&core.Prop{
		ID:    "C12",
		Title: "The accumulated copy-size limit bounds growth caused by copy",
		Rule: "Encoder-spelled documents (so that sizes do not depend on which nodes were parsed), sequences of copies mixed with adds/moves/replaces. The reference computes the running total of copied sizes (compact spelling under the call's EscapeHTML, a copied null 0 or 4); " +
			"v5: the H2 hook reports (size,total) at every copy and must agree, the limit (per call and through the package default) is placed at every prefix total -1/+0/+1, 0 disables; legacy: same decisions from the error type at the call boundary. " +
			"non-trivial = sequence with at least one accounted copy; distinct = distinct (document, patch, options).",
		Assumptions: []string{"refenc implements the encoder's compact spelling", "a copy that is also inapplicable for another reason decides nothing (stated domain)"},
		Setup:       setPoolMode,
		Finish: func(c *core.Ctx) {
			poolFinish(c)
			if c12PendingN > 0 {
				if c12EventsSeen == 0 {
					c.Inconclusive("the CopyAccounted hook never fired in this worker although copies were executed (hook call site missing?)")
				} else {
					for _, d := range c12Pending {
						d["cases_without_any_event"] = c12PendingN
						c.Violation("copy-not-accounted", d)
					}
				}
			}
		},
		Floors: func(t core.Tier, m *core.Merged) []string {
			out := poolFloor(m)
			if m.Counts["h2.copy_events"] < 1000 {
				out = append(out, "fewer than 1000 copy-accounting hook events")
			}
			if m.Counts["limit:enforced"] < 200 || m.Counts["limit:not-reached"] < 200 {
				out = append(out, "limit enforced / not reached fewer than 200 times each")
			}
			if m.Counts["any-spelling:judged"] < 1000 || m.Counts["per-call-vs-default:judged"] < 1000 {
				out = append(out, "arbitrary-spelling / per-call-vs-default families judged fewer than 1000 cases")
			}
			if m.Counts["legacy:limit:enforced"] < 50 {
				out = append(out, "legacy limit enforced fewer than 50 times")
			}
			return out
		},
		Families: []core.Family{
			{Name: "v5-per-call-limit", Count: n(40000, 1600000), Run: func(c *core.Ctx, idx int) {
				esc := c.R.Intn(2) == 0
				sc := c12Seq(c, esc, false)
				o := V5Opts{NegIdx: true, EscapeHTML: esc}
				o.Limit = chooseLimit(c, evalWithLimit(sc, o))
				judgeV5(c, sc, o, false)
			}},
			{Name: "v5-any-spelling", Count: n(20000, 800000), Run: func(c *core.Ctx, idx int) {
				// sizes are taken from the library's own output spelling, so documents need not be encoder-spelled
				sc := c12AnySeq(c)
				o := V5Opts{NegIdx: true, EscapeHTML: c.R.Intn(2) == 0}
				sizes, why := outputSpellingSizes(c, sc, o)
				if why != "" {
					if strings.HasPrefix(why, "harness:") {
						c.Inconclusive(why)
						return
					}
					d := sc.Describe()
					d["options"] = o.String()
					d["why"] = why
					c.Violation("copy-destination-not-as-in-reference", d)
					return
				}
				sc.CopySizes = sizes
				o.Limit = chooseLimit(c, evalWithLimit(sc, o))
				judgeV5(c, sc, o, false)
				c.Count("any-spelling:judged")
			}},
			{Name: "v5-per-call-limit-vs-package-default", Count: n(8000, 320000), Run: func(c *core.Ctx, idx int) {
				// the per-call option decides alone: whatever the package default is while the call runs
				// (options were created before it changed, or were given a limit of their own, 0 included)
				esc := c.R.Intn(2) == 0
				sc := c12Seq(c, esc, false)
				o := V5Opts{NegIdx: true, EscapeHTML: esc}
				lv := evalWithLimit(sc, o)
				o.Limit = chooseLimit(c, lv)
				if c.R.Intn(2) == 0 {
					o.Limit = 0
				}
				saved := jp.AccumulatedCopySizeLimit
				jp.AccumulatedCopySizeLimit = []int64{1, 5, 1000000000}[c.R.Intn(3)]
				if len(lv.Hi) > 0 && c.R.Intn(2) == 0 {
					jp.AccumulatedCopySizeLimit = lv.Hi[c.R.Intn(len(lv.Hi))] - 1 + int64(c.R.Intn(3))
				}
				if jp.AccumulatedCopySizeLimit < 1 {
					jp.AccumulatedCopySizeLimit = 1
				}
				c.Count("per-call-vs-default:judged")
				judgeV5(c, sc, o, false)
				jp.AccumulatedCopySizeLimit = saved
			}},
			{Name: "v5-options-value-reused", Count: n(6000, 240000), Run: func(c *core.Ctx, idx int) {
				// one *ApplyOptions value passed to four calls in a row (limits set on it before each call):
				// what an earlier call did - in particular one that failed after some copies - must not count
				reuseOpts = jp.NewApplyOptions()
				defer func() { reuseOpts = nil }()
				for k := 0; k < 4; k++ {
					esc := c.R.Intn(2) == 0
					sc := c12Seq(c, esc, false)
					if k%2 == 0 {
						// likely to fail part-way: a failing operation appended after the copies
						sc.Ops = append(sc.Ops, ref.Op{Kind: "test", Path: "/zz/nope", Value: mustParse("1"), HasValue: true})
						sc.OpTexts = append(sc.OpTexts, OpText("test", "/zz/nope", "", "1", true))
					}
					o := V5Opts{NegIdx: true, EscapeHTML: esc}
					o.Limit = chooseLimit(c, evalWithLimit(sc, o))
					judgeV5(c, sc, o, false)
				}
				c.Count("options-value-reused:sequences")
			}},
			{Name: "v5-copy-to-the-empty-pointer", Exhaustive: true, Count: func(core.Tier) int { return 12 }, Run: func(c *core.Ctx, idx int) {
				// whatever a copy whose destination is "" does to the document, it is a copy: its size counts
				val := []string{`"0123456789012345678901234567890123456789"`, `{"k":[1,2,3,4,5,6,7,8,9,10],"s":"xxxxxxxxxxxxxxxxxxxxxxx"}`, `[[[["deep"]]],"aaaaaaaaaaaaaaaaaaaaaaaaaaaaaaaaaaaaaaaaa"]`}[idx%3]
				doc := `{"a":` + val + `,"b":1}`
				if (idx/3)%2 == 1 {
					doc = `[` + val + `,1]`
				}
				from := "/a"
				if doc[0] == '[' {
					from = "/0"
				}
				patch := `[{"op":"copy","from":"` + from + `","path":""}]`
				if idx/6 == 1 {
					patch = `[{"op":"copy","from":"` + from + `","path":""},{"op":"copy","from":"","path":"/again"}]`
				}
				o := V5Opts{NegIdx: true, EscapeHTML: true, Limit: int64(len(val)) - 1}
				res := ApplyV5(doc, patch, o, "")
				c.Eval(1)
				d := map[string]any{"doc": doc, "patch": patch, "options": o.String(), "library_output": clip(string(res.Out), 500), "library_error": errText(res.Err), "size_of_the_copied_value": len(val)}
				var ce *jp.AccumulatedCopySizeError
				switch {
				case res.Panic != nil:
					d["panic"] = panicDetail(res.Panic)
					c.Violation(res.Panic.Sig(), d)
				case res.Err == nil:
					c.Violation("copy-to-empty-pointer-not-counted:document-returned-above-the-limit", d)
				case !errors.As(res.Err, &ce):
					c.Count("copy-to-root:other-error") // refused for another reason: decides nothing
				default:
					c.Count("copy-to-root:limit-error")
				}
				c.Nontrivial("copyroot", doc, patch)
			}},
			{Name: "v5-one-patch-both-escape-settings", Count: n(2000, 60000), Run: func(c *core.Ctx, idx int) {
				// one decoded Patch applied with EscapeHTML on and off in turn: what a value of the patch costs when it
				// is copied depends on the setting of that call only
				h := []string{"<", ">", "&", "<&>", "a<b"}[c.R.Intn(5)]
				k := 1 + c.R.Intn(6)
				val := `{"h":"` + strings.Repeat(h, k) + `","n":[1,2]}`
				doc := `{"k":1}`
				patch := `[{"op":"add","path":"/v","value":` + val + `},{"op":"copy","from":"/v","path":"/w"}]`
				if c.R.Intn(2) == 0 {
					patch = `[{"op":"replace","path":"/k","value":` + val + `},{"op":"copy","from":"/k","path":"/w"},{"op":"test","path":"/w","value":` + val + `}]`
				}
				offSize := int64(len(val))
				onSize := int64(len(refenc.EscapeRaw(val)))
				var p jp.Patch
				var derr error
				if pn := mon.Try(func() { p, derr = jp.DecodePatch([]byte(patch)) }); pn != nil || derr != nil {
					c.Inconclusive("pool patch of v5-one-patch-both-escape-settings does not decode")
					return
				}
				order := []bool{true, false, true, false}
				if c.R.Intn(2) == 0 {
					order = []bool{false, true, false, true}
				}
				for step, esc := range order {
					size := offSize
					if esc {
						size = onSize
					}
					lim := size - int64(step%2) // exactly enough, or one byte short
					lo := V5Opts{NegIdx: true, EscapeHTML: esc, Limit: lim}.Lib()
					var out []byte
					var err error
					pn := mon.Try(func() { out, err = p.ApplyWithOptions([]byte(doc), lo) })
					c.Eval(1)
					d := map[string]any{"doc": doc, "patch": patch, "call_number": step + 1, "escape_html": esc, "limit": lim, "size_under_this_setting": size, "library_output": clip(string(out), 400), "library_error": errText(err)}
					var ce *jp.AccumulatedCopySizeError
					switch {
					case pn != nil:
						d["panic"] = panicDetail(pn)
						c.Violation(pn.Sig(), d)
						return
					case lim >= size && err != nil:
						c.Violation("reused-patch:limit-error-although-total-within-limit", d)
						return
					case lim < size && (err == nil || !errors.As(err, &ce)):
						c.Violation("reused-patch:no-limit-error-although-total-exceeds-limit", d)
						return
					}
				}
				c.Count("one-patch-both-settings:ok")
				c.Nontrivial("both", patch, fmt.Sprint(order))
			}},
			{Name: "v5-charged-as-spelled-in-the-output", Exhaustive: true, Count: func(core.Tier) int { return 2 * 2 * 3 * 4 }, Run: func(c *core.Ctx, idx int) {
				// the size charged for a copied string is the length of that string as the call writes it - whatever the
				// root kind, the indentation and the escaping switch
				arr := idx%2 == 0
				idx /= 2
				esc := idx%2 == 0
				idx /= 2
				ind := []string{"", " ", "\t"}[idx%3]
				idx /= 3
				sv := []string{`"<&>"`, `"a\u2028b"`, `"plain"`, `"x>y&&"`}[idx%4]
				doc, patch, dest := `[`+sv+`,1]`, `[{"op":"copy","from":"/0","path":"/-"}]`, "/2"
				if !arr {
					doc, patch, dest = `{"a":`+sv+`,"k":1}`, `[{"op":"copy","from":"/a","path":"/b"}]`, "/b"
				}
				o := V5Opts{NegIdx: true, EscapeHTML: esc}
				res := ApplyV5(doc, patch, o, ind)
				c.Eval(1)
				d := map[string]any{"doc": doc, "patch": patch, "options": o.String(), "indent": ind, "library_output": clip(string(res.Out), 400), "library_error": errText(res.Err), "hook_copy_events": res.Events.Copies}
				if res.Panic != nil || res.Err != nil || len(res.Events.Copies) != 1 {
					if res.Panic != nil {
						d["panic"] = panicDetail(res.Panic)
					}
					c.Violation("charged-as-spelled:copy-fails-or-is-not-accounted", d)
					return
				}
				root, err := jr.Parse(res.Out)
				if err != nil || root.Resolve(dest) == nil {
					c.Violation("charged-as-spelled:copied-value-not-found-in-output", d)
					return
				}
				node := root.Resolve(dest)
				if n := node.End - node.Off; res.Events.Copies[0].Size != n {
					d["length_in_output"] = n
					c.Violation("copy-size-differs-from-output-spelling", d)
					return
				}
				c.Count("charged-as-spelled:ok")
				c.Nontrivial("spelled", doc, ind, o.String())
			}},
			{Name: "v5-package-default", Count: n(10000, 400000), Run: func(c *core.Ctx, idx int) {
				sc := c12Seq(c, true, false)
				o := V5Opts{NegIdx: true, EscapeHTML: true}
				o.Limit = chooseLimit(c, evalWithLimit(sc, o))
				judgeV5(c, sc, o, true)
			}},
			{Name: "legacy-package-default", Count: n(15000, 600000), Run: func(c *core.Ctx, idx int) {
				legacyLimitCase(c, c12Seq(c, true, true))
			}},
			{Name: "legacy-documents-with-whitespace-and-raw-html", Count: n(8000, 300000), Run: func(c *core.Ctx, idx int) {
				// the document is spelled with raw < > & and with white space between its tokens: what a copy costs is
				// the size of the copy as the package writes it (compact, escaped), not the size of the source text
				sc := c12Seq(c, false, true)
				wp := gen.Plain().With(func(p *gen.Profile) { p.WS = 35; p.Spell = gen.SpellEncOff; p.Wide = 0 })
				sc.DocText = wp.Respell(c.R, sc.Doc, false)
				// (no test operations: the legacy package compares string spellings, and a raw "<" in the patch no
				// longer matches once a copy has re-encoded it - outside C18's stated domain, and not C12's matter)
				var ops []ref.Op
				var texts []string
				for i, op := range sc.Ops {
					if op.Kind != "test" {
						ops, texts = append(ops, op), append(texts, sc.OpTexts[i])
					}
				}
				sc.Ops, sc.OpTexts = ops, texts
				legacyLimitCase(c, sc)
				c.Count("legacy:respelled-cases")
			}},
		},
	})
	_ = jr.Null
}

func afterText(s, marker string) string {
	for i := 0; i+len(marker) <= len(s); i++ {
		if s[i:i+len(marker)] == marker {
			return s[i+len(marker):]
		}
	}
	return ""
}
