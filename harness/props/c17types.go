package props

import (
	"bytes"
	stdjson "encoding/json"
	"fmt"
	"math"
	"math/rand"
	"reflect"
	"strconv"
	"strings"

	ij "github.com/evanphx/json-patch/v5/internal/json"
	"github.com/evanphx/json-patch/v5/verifharness/gen"
)

// ---- hand-written (un)marshaler types; the same method sets satisfy the
// interfaces of both packages.

type upperText string

func (u upperText) MarshalText() ([]byte, error) { return []byte(strings.ToUpper(string(u))), nil }
func (u *upperText) UnmarshalText(b []byte) error {
	*u = upperText(strings.ToLower(string(b)))
	return nil
}

type wrapJSON struct{ V int }

func (w wrapJSON) MarshalJSON() ([]byte, error) {
	return []byte(fmt.Sprintf(`{"wrapped": [ %d , "<x>" ]}`, w.V)), nil
}
func (w *wrapJSON) UnmarshalJSON(b []byte) error {
	w.V = len(b)
	return nil
}

type failJSON struct{ N int }

func (f failJSON) MarshalJSON() ([]byte, error) {
	if f.N%2 == 1 {
		return nil, fmt.Errorf("odd")
	}
	return []byte(`[` + strconv.Itoa(f.N) + `]`), nil
}

type badJSON struct{}

func (badJSON) MarshalJSON() ([]byte, error) { return []byte(`{"a":tru}`), nil }

type ptrRecv struct{ S string }

func (p *ptrRecv) MarshalJSON() ([]byte, error) { return []byte(strconv.Quote("ptr:" + p.S)), nil }

// fork-only marshaler interfaces (no counterpart in encoding/json): a value that
// redirects to another value must encode exactly like that value, and a trusted
// marshaler's bytes must appear verbatim.
type redirV struct{ V any }

func (r redirV) RedirectMarshalJSON() (any, error) { return r.V, nil }

type trustV struct{ Raw []byte }

func (t trustV) TrustMarshalJSON(b *bytes.Buffer) error { _, err := b.Write(t.Raw); return err }

type keyText int

func (k keyText) MarshalText() ([]byte, error) { return []byte("k" + strconv.Itoa(int(k))), nil }
func (k *keyText) UnmarshalText(b []byte) error {
	n, err := strconv.Atoi(strings.TrimPrefix(string(b), "k"))
	*k = keyText(n)
	return err
}

// ---- run-time generated struct types

var fieldTypes = []reflect.Type{
	reflect.TypeOf(false), reflect.TypeOf(int(0)), reflect.TypeOf(int8(0)), reflect.TypeOf(int64(0)), reflect.TypeOf(uint(0)), reflect.TypeOf(uint8(0)), reflect.TypeOf(uint64(0)),
	reflect.TypeOf(float32(0)), reflect.TypeOf(float64(0)), reflect.TypeOf(""), reflect.TypeOf([]byte(nil)), reflect.TypeOf([]int(nil)), reflect.TypeOf([]string(nil)), reflect.TypeOf([2]int{}),
	reflect.TypeOf(map[string]int(nil)), reflect.TypeOf(map[string]any(nil)), reflect.TypeOf(map[int]string(nil)), reflect.TypeOf(map[keyText]bool(nil)),
	reflect.TypeOf((*int)(nil)), reflect.TypeOf((*string)(nil)), reflect.TypeOf((**bool)(nil)), reflect.TypeOf((*any)(nil)).Elem(), reflect.TypeOf([]any(nil)),
	reflect.TypeOf(upperText("")), reflect.TypeOf(wrapJSON{}), reflect.TypeOf((*wrapJSON)(nil)), reflect.TypeOf([]*float64(nil)), reflect.TypeOf(struct{ X, Y int }{}),
}

var stringable = map[reflect.Kind]bool{reflect.Bool: true, reflect.Int: true, reflect.Int8: true, reflect.Int64: true, reflect.Uint: true, reflect.Uint8: true, reflect.Uint64: true,
	reflect.Float32: true, reflect.Float64: true, reflect.String: true}

var fieldNames = []string{"A", "B", "C", "Dd", "E", "Ff", "G", "Name", "Value", "X1", "Kk", "Sk", "Straße", "Schlüssel", "Kmø"}
var tagNames = []string{"a", "b", "A", "name", "NAME", "x-y", "é", "dd", "", "value", "0", "ks", "KS", "sé", "kmØ"}

// genStructType builds a struct type with json tags: renamed, omitempty,
// string, "-", case-colliding names, embedded structs and pointers to them.
func genStructType(r *rand.Rand, depth int) reflect.Type {
	n := 1 + r.Intn(6)
	used := map[string]bool{}
	var fields []reflect.StructField
	for i := 0; i < n; i++ {
		name := fieldNames[r.Intn(len(fieldNames))]
		if used[name] {
			continue
		}
		used[name] = true
		ft := fieldTypes[r.Intn(len(fieldTypes))]
		if depth > 0 && r.Intn(5) == 0 {
			ft = genStructType(r, depth-1)
			if r.Intn(2) == 0 {
				ft = reflect.PointerTo(ft)
			}
		}
		var tag string
		switch r.Intn(8) {
		case 0:
			tag = `json:"-"`
		case 1:
			tag = `json:"-,"`
		case 2, 3:
			tag = `json:"` + tagNames[r.Intn(len(tagNames))] + `"`
		case 4:
			tag = `json:"` + tagNames[r.Intn(len(tagNames))] + `,omitempty"`
		case 5:
			if stringable[ft.Kind()] || (ft.Kind() == reflect.Pointer && stringable[ft.Elem().Kind()]) {
				tag = `json:",string"`
			} else {
				tag = `json:",omitempty"`
			}
		}
		f := reflect.StructField{Name: name, Type: ft, Tag: reflect.StructTag(tag)}
		fields = append(fields, f)
	}
	if depth > 0 && r.Intn(4) == 0 {
		// embedded struct (by value or by pointer); StructOf wants the name of the type
		et := genEmbedded(r, r.Intn(5))
		if r.Intn(3) == 0 {
			et = reflect.PointerTo(et)
		}
		emb := reflect.StructField{Name: "Emb", Type: et, Anonymous: true}
		if !used["Emb"] {
			fields = append(fields, emb)
		}
	}
	return reflect.StructOf(fields)
}

// genEmbedded: a struct with a few fields of its own that embeds, levels deep, further structs of that kind
// (promoted fields have index paths of up to six steps; names clash across levels now and then).
func genEmbedded(r *rand.Rand, levels int) reflect.Type {
	var fields []reflect.StructField
	used := map[string]bool{}
	for i, n := 0, 1+r.Intn(3); i < n; i++ {
		name := fieldNames[r.Intn(len(fieldNames))]
		if used[name] || name == "Emb" {
			continue
		}
		used[name] = true
		f := reflect.StructField{Name: name, Type: fieldTypes[r.Intn(len(fieldTypes))]}
		if r.Intn(3) == 0 {
			f.Tag = reflect.StructTag(`json:"` + tagNames[r.Intn(len(tagNames))] + `"`)
		}
		fields = append(fields, f)
	}
	if levels > 0 {
		et := genEmbedded(r, levels-1)
		if r.Intn(4) == 0 {
			et = reflect.PointerTo(et)
		}
		fields = append(fields, reflect.StructField{Name: "Emb", Type: et, Anonymous: true})
	}
	return reflect.StructOf(fields)
}

// genTextFor produces a JSON text that (mostly) fits type t.
func genTextFor(r *rand.Rand, t reflect.Type, depth int) string {
	if r.Intn(25) == 0 {
		return "null"
	}
	if r.Intn(30) == 0 {
		// type mismatch
		return gen.Hostile().Value(r, 1)
	}
	switch t {
	case reflect.TypeOf(upperText("")):
		return `"Text"`
	case reflect.TypeOf(wrapJSON{}), reflect.TypeOf((*wrapJSON)(nil)):
		return `{"wrapped":[1,2]}`
	case reflect.TypeOf([]byte(nil)):
		return []string{`"AQID"`, `""`, `"!!"`, `[1,2]`, `null`}[r.Intn(5)]
	}
	switch t.Kind() {
	case reflect.Bool:
		return []string{"true", "false"}[r.Intn(2)]
	case reflect.Int, reflect.Int8, reflect.Int64:
		return []string{"0", "1", "-5", "127", "128", "9223372036854775807", "9223372036854775808", "1.0", "1e2", "-0"}[r.Intn(10)]
	case reflect.Uint, reflect.Uint8, reflect.Uint64:
		return []string{"0", "1", "255", "256", "18446744073709551615", "-1", "1.5"}[r.Intn(7)]
	case reflect.Float32, reflect.Float64:
		return []string{"0", "1.5", "-0", "1e400", "1e-400", "3.4028235e38", "1e39", "123456789.123456789", "5e-324", "1e-7", "2.5e-9", "0.00000012", "1e21", "1e20", "1e-6", "123e-10", "-4.5E-08"}[r.Intn(17)]
	case reflect.String:
		return gen.SpellString(r, gen.HostileStrings[r.Intn(len(gen.HostileStrings))], gen.SpellRandom, r.Intn(10) == 0)
	case reflect.Slice, reflect.Array:
		k := r.Intn(4)
		parts := make([]string, k)
		for i := range parts {
			parts[i] = genTextFor(r, t.Elem(), depth-1)
		}
		return "[" + strings.Join(parts, ",") + "]"
	case reflect.Map:
		k := r.Intn(3)
		var parts []string
		for i := 0; i < k; i++ {
			var key string
			switch t.Key().Kind() {
			case reflect.Int:
				if t.Key() == reflect.TypeOf(keyText(0)) {
					key = []string{`"k1"`, `"k22"`, `"x"`}[r.Intn(3)]
				} else {
					key = []string{`"1"`, `"-7"`, `"x"`, `"01"`}[r.Intn(4)]
				}
			default:
				key = []string{`"a"`, `"b"`, `""`, `"x<y"`}[r.Intn(4)]
			}
			parts = append(parts, key+":"+genTextFor(r, t.Elem(), depth-1))
		}
		return "{" + strings.Join(parts, ",") + "}"
	case reflect.Pointer:
		return genTextFor(r, t.Elem(), depth)
	case reflect.Interface:
		return gen.Hostile().Value(r, 2)
	case reflect.Struct:
		var parts []string
		for i := 0; i < t.NumField(); i++ {
			f := t.Field(i)
			if r.Intn(5) == 0 {
				continue
			}
			name := f.Name
			quoted := false
			if tag, ok := f.Tag.Lookup("json"); ok {
				p := strings.Split(tag, ",")
				if p[0] == "-" && len(p) == 1 {
					if r.Intn(2) == 0 {
						continue
					}
				} else if p[0] != "" {
					name = p[0]
				}
				for _, o := range p[1:] {
					if o == "string" {
						quoted = true
					}
				}
			}
			if f.Anonymous {
				// promoted fields: spell the inner members at this level
				inner := genTextFor(r, f.Type, depth-1)
				if len(inner) > 2 && inner[0] == '{' {
					parts = append(parts, inner[1:len(inner)-1])
				}
				continue
			}
			switch r.Intn(12) {
			case 0:
				name = strings.ToUpper(name)
			case 1:
				name = strings.ToLower(name)
			case 2:
				// Unicode simple folding: the Kelvin sign folds to k, the long s to s
				name = strings.NewReplacer("k", "\u212a", "K", "\u212a", "s", "\u017f", "S", "\u017f").Replace(name)
			}
			val := genTextFor(r, f.Type, depth-1)
			if quoted && r.Intn(6) > 0 && val != "null" {
				val = strconv.Quote(val)
			}
			parts = append(parts, strconv.Quote(name)+":"+val)
		}
		if r.Intn(4) == 0 {
			parts = append(parts, `"unknownField":[1,{"a":2}]`)
		}
		if r.Intn(6) == 0 && len(parts) > 0 {
			parts = append(parts, parts[0]) // duplicate
		}
		r.Shuffle(len(parts), func(i, j int) { parts[i], parts[j] = parts[j], parts[i] })
		return "{" + strings.Join(parts, ",") + "}"
	}
	return "null"
}

// toStdNumbers rewrites, in place, every ij.Number reachable through
// interfaces into encoding/json's Number, so that reflect.DeepEqual can
// compare a value decoded by the fork with one decoded by the standard
// library (the distinct Number type is normalised, as the property says).
func toStdNumbers(v reflect.Value) {
	switch v.Kind() {
	case reflect.Interface:
		if v.IsNil() {
			return
		}
		e := v.Elem()
		if n, ok := e.Interface().(ij.Number); ok {
			if v.CanSet() {
				v.Set(reflect.ValueOf(stdjson.Number(n)))
			}
			return
		}
		toStdNumbers(e) // maps, slices and pointers are references
	case reflect.Pointer:
		if !v.IsNil() {
			toStdNumbers(v.Elem())
		}
	case reflect.Struct:
		for i := 0; i < v.NumField(); i++ {
			if v.Type().Field(i).IsExported() {
				toStdNumbers(v.Field(i))
			}
		}
	case reflect.Slice, reflect.Array:
		for i := 0; i < v.Len(); i++ {
			toStdNumbers(v.Index(i))
		}
	case reflect.Map:
		for _, k := range v.MapKeys() {
			el := v.MapIndex(k)
			switch el.Kind() {
			case reflect.Interface:
				if el.IsNil() {
					continue
				}
				if n, ok := el.Elem().Interface().(ij.Number); ok {
					v.SetMapIndex(k, reflect.ValueOf(stdjson.Number(n)))
					continue
				}
				toStdNumbers(el.Elem())
			case reflect.Map, reflect.Slice, reflect.Pointer:
				toStdNumbers(el)
			case reflect.Struct, reflect.Array:
				c := reflect.New(el.Type()).Elem()
				c.Set(el)
				toStdNumbers(c)
				v.SetMapIndex(k, c)
			}
		}
	}
}

// normAny maps a dynamic value decoded by the fork to the standard library's types.
func normAny(v any) any {
	switch t := v.(type) {
	case ij.Number:
		return stdjson.Number(t)
	case []any:
		for i := range t {
			t[i] = normAny(t[i])
		}
	case map[string]any:
		for k := range t {
			t[k] = normAny(t[k])
		}
	}
	return v
}

// genGo builds a Go value from nil, bool, numbers, strings (any bytes), []byte, slices, maps, pointers.
func genGo(r *rand.Rand, d int) any {
	switch n := r.Intn(20); {
	case n == 0:
		return nil
	case n == 1:
		return r.Intn(2) == 0
	case n == 2:
		return []float64{0, 1, -1.5, 1e21, 1e20, 1e-7, 1e-6, 123456789, math.MaxFloat64, 5e-324, 100000000000000000000, math.Copysign(0, -1)}[r.Intn(12)]
	case n == 3:
		return []float64{math.NaN(), math.Inf(1), math.Inf(-1)}[r.Intn(3)]
	case n == 4:
		return []string{"", "a", "x<y>&", "  ", "\x00\x1f\x7f", "\xff\xfe", "é😀", "\"\\/", "\b\f\n\r\t", "\xe2\x80\xa8", "\xed\xa0\x80"}[r.Intn(11)]
	case n == 5:
		return r.Int63() - 1<<62
	case n == 6:
		return []byte{1, 2, byte(r.Intn(256))}
	case n == 7:
		return []float32{1.1, 3.4028235e38, 1e-45, 16777216}[r.Intn(4)]
	case n == 8:
		return uint64(math.MaxUint64)
	case n == 9:
		s := "ptr"
		return &s
	case n == 10:
		return upperText("shout")
	case n == 11:
		return wrapJSON{V: r.Intn(100)}
	case n == 12:
		return failJSON{N: r.Intn(4)}
	case n == 13:
		return map[int]string{1: "a", -2: "b", 30: "c"}
	case n == 14:
		return map[keyText]int{3: 1, 1: 2}
	case n == 15:
		return &ptrRecv{S: "v"}
	case n == 16 && r.Intn(10) == 0:
		return badJSON{}
	case n == 16 && r.Intn(6) == 0:
		// types no encoder exists for: both packages must refuse
		return []any{make(chan int), func() {}, complex(1, 2), map[bool]int{true: 1}}[r.Intn(4)]
	case n <= 17 && d > 0:
		k := r.Intn(4)
		s := make([]any, k)
		for i := range s {
			s[i] = genGo(r, d-1)
		}
		return s
	case d > 0:
		k := r.Intn(4)
		m := map[string]any{}
		for i := 0; i < k; i++ {
			m[[]string{"a", "b", "x<y", "\xff", "é", "", "\xe2\x80\xa9"}[r.Intn(7)]] = genGo(r, d-1)
		}
		return m
	}
	return "leaf"
}

// normBytes removes the one spelling difference between Go releases that the
// property names: U+0008 / U+000C.
func normBytes(b []byte) string {
	s := string(b)
	s = strings.ReplaceAll(s, `\b`, gen.U("0008"))
	s = strings.ReplaceAll(s, `\f`, gen.U("000c"))
	return s
}

// values whose encoding is more than a thousand pointer/slice/map levels deep (where the encoder starts to
// look for cycles) and which hold pointers into themselves that are not cycles: a pointer to the first field of
// a struct has the address of the struct
type headT struct {
	X int `json:"x"`
}
type interiorNode struct {
	Head headT  `json:"head"`
	Ref  *headT `json:"ref,omitempty"`
	Next any    `json:"next,omitempty"`
}
type sliceFirst struct {
	A []int  `json:"a"`
	P *[]int `json:"p"`
}
type selfPtr struct {
	N    int      `json:"n"`
	Self *selfPtr `json:"self,omitempty"`
}

func interiorList(n int, shareRef bool) any {
	var next any
	var first *interiorNode
	for i := n; i > 0; i-- {
		nd := &interiorNode{Head: headT{i}, Next: next}
		nd.Ref = &nd.Head
		if first == nil {
			first = nd
		} else if shareRef {
			nd.Ref = &first.Head // the same (acyclic) pointer on every level
		}
		next = nd
	}
	return next
}

func deepValue(idx int) (any, string) {
	wrap := func(v any, n int, kind int) any {
		for i := 0; i < n; i++ {
			switch kind {
			case 0:
				v = []any{v}
			case 1:
				v = map[string]any{"m": v}
			default:
				w := v
				v = &w
			}
		}
		return v
	}
	depths := []int{10, 999, 1000, 1001, 1500}
	n := depths[idx%len(depths)]
	switch k := idx / len(depths); k {
	case 0:
		return interiorList(n, false), "list of nodes each pointing at its own first field"
	case 1:
		return interiorList(n, true), "list of nodes all pointing at the last node's first field"
	case 2, 3, 4:
		nd := &interiorNode{Head: headT{7}}
		nd.Ref = &nd.Head
		return wrap(nd, n, k-2), "node pointing at its own first field, below slices/maps/pointers"
	case 5, 6:
		sf := &sliceFirst{A: []int{1, 2, 3}}
		sf.P = &sf.A
		return wrap(sf, n, k-5), "struct with a pointer to its first (slice) field, below slices/maps"
	case 7:
		// a real cycle, reached below n levels: both encoders must report it
		sp := &selfPtr{N: 1}
		sp.Self = sp
		return wrap(sp, n, 2), "pointer cycle"
	default:
		// the same acyclic pointer twice side by side, below n levels
		x := &headT{3}
		return wrap([]any{x, x, map[string]any{"again": x}}, n, 0), "one pointer used three times, no cycle"
	}
}

const deepValueCount = 9 * 5
