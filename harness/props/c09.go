package props

import (
	"bytes"
	"fmt"
	"runtime/debug"

	"github.com/evanphx/json-patch/v5/verifharness/core"
	"github.com/evanphx/json-patch/v5/verifharness/mon"
)

// state shared by the cases of one worker
var hist struct {
	pool  *CallPool
	alone []CallResult
	err   string
	cells map[string][]int // (API, class) -> call indices
	names []string
}

func histSetup(c *core.Ctx) {
	setPoolMode(c)
	mon.EnableFaultPanics()
	id := c.Worker % 4 // four different pools per run
	hist.pool = BuildPool(c.Seed, id)
	if err := hist.pool.Open(); err != nil {
		hist.err = "call pool: " + err.Error()
		return
	}
	alone, err := AloneResults(c.Seed, id, len(hist.pool.Calls))
	if err != nil {
		hist.err = err.Error()
		return
	}
	hist.alone = alone
	hist.cells = map[string][]int{}
	for i, cl := range hist.pool.Calls {
		k := cl.API + "/" + cl.Class
		if _, ok := hist.cells[k]; !ok {
			hist.names = append(hist.names, k)
		}
		hist.cells[k] = append(hist.cells[k], i)
	}
	sortStrings(hist.names)
	c.CountN("pool.calls", int64(len(hist.pool.Calls)))
	c.CountN("pool.cells", int64(len(hist.names)))
}

type retainedOut struct {
	call int
	live []byte
	copy []byte
}

// runHistory executes the calls in order, compares every result with the
// result of the same call run alone in a fresh process, re-checks every
// retained output at the end, and checks that no argument was modified.
// reportAliasing: the pool's patches were decoded from buffers that were overwritten right afterwards.
func reportAliasing(c *core.Ctx) {
	if hist.pool != nil && hist.pool.Aliasing != "" {
		c.Violation("decoded-patch-follows-the-buffer-it-was-decoded-from", map[string]any{"observed": hist.pool.Aliasing})
	}
}

func runHistory(c *core.Ctx, calls []int, kind string) {
	if hist.err != "" {
		c.Inconclusive(hist.err)
		return
	}
	reportAliasing(c)
	p := hist.pool
	var kept []retainedOut
	desc := func(upto int) []string {
		var out []string
		lo := 0
		if upto > 12 {
			lo = upto - 12
		}
		for _, ci := range calls[lo : upto+1] {
			cl := p.Calls[ci]
			out = append(out, fmt.Sprintf("#%d %s/%s", ci, cl.API, cl.Class))
		}
		return out
	}
	for n, ci := range calls {
		cl := p.Calls[ci]
		var live []byte
		got := p.Run(cl, &live)
		c.Eval(1)
		if why := SameResult(cl.API, got, hist.alone[ci]); why != "" {
			d := map[string]any{"history_kind": kind, "position": n, "call": cl, "why": why, "preceding_calls": desc(n),
				"arguments": []string{clip(p.Inputs[cl.A], 800), clip(argText(p, cl.B), 800)}, "result": got, "result_alone_in_fresh_process": hist.alone[ci]}
			if cl.Patch >= 0 {
				d["patch"] = clip(p.Inputs[p.PatchInputs[cl.Patch]], 1200)
			}
			sig := "result-depends-on-history:" + cl.API
			if got.Panic != "" {
				sig = "panic-or-fault-in-history:" + cl.API
			}
			c.Violation(sig, d)
			return
		}
		if why := p.CheckOptions(); why != "" {
			c.Violation("shared-ApplyOptions-modified", map[string]any{"history_kind": kind, "why": why, "call": cl, "position": n, "preceding_calls": desc(n), "patch": clip(p.Inputs[p.PatchInputs[cl.Patch]], 1200)})
			for i := range p.shared {
				*p.shared[i] = p.sharedS[i]
			}
			return
		}
		if live != nil && len(live) > 0 && !aliasesInput(p, live) {
			kept = append(kept, retainedOut{ci, live, append([]byte(nil), live...)})
		}
		c.Count("api:" + cl.API)
	}
	for _, k := range kept {
		if !bytes.Equal(k.live, k.copy) {
			cl := p.Calls[k.call]
			c.Violation("returned-output-changed-later:"+cl.API, map[string]any{"history_kind": kind, "call": cl, "returned": clip(string(k.copy), 800), "now": clip(string(k.live), 800)})
			return
		}
	}
	c.CountN("retained-outputs-rechecked", int64(len(kept)))
	if why := p.CheckPatches(); why != "" {
		c.Violation("shared-Patch-modified", map[string]any{"history_kind": kind, "why": why, "calls": desc(len(calls) - 1)})
		return
	}
	if why := p.CheckOptions(); why != "" {
		c.Violation("shared-ApplyOptions-modified", map[string]any{"history_kind": kind, "why": why, "calls": desc(len(calls) - 1)})
		// restore, so that the rest of the run is judged against the alone results again
		for i := range p.shared {
			*p.shared[i] = p.sharedS[i]
		}
		return
	}
	if why := p.CheckInputs(); why != "" {
		c.Violation("input-buffer-modified", map[string]any{"history_kind": kind, "why": why})
		return
	}
	c.Count("history:ok")
}

func argText(p *CallPool, i int) string {
	if i < 0 {
		return ""
	}
	return p.Inputs[i]
}

// aliasesInput: some entry points legitimately return their argument (a
// non-object merge patch, the empty document); such a slice lives in
// write-protected memory and cannot change.
func aliasesInput(p *CallPool, b []byte) bool {
	for _, g := range p.bufs {
		if len(g.B) > 0 && len(b) > 0 && &g.B[0] == &b[0] {
			return true
		}
	}
	return false
}

func init() {
	n := func(q, t int) func(core.Tier) int {
		return func(tier core.Tier) int {
			if tier == core.Thorough {
				return t
			}
			return q
		}
	}
	core.Register(&core.Prop{
		ID:    "C09",
		Title: "Calls are pure: inputs are never modified and history does not matter",
		Rule: "A pool of ~140 calls per worker over all entry points (Apply, ApplyIndent, ApplyWithOptions, MergePatch, MergeMergePatches, CreateMergePatch, Equal, DecodePatch) in classes succeeds / fails / malformed, sharing 6 decoded Patch values and ~60 input buffers. Every input lives in write-protected pages followed by a guard page and the raw messages of the shared Patches are re-homed into such pages, so a write to any argument (even one undone later) or a read past its end faults at the offending instruction; the Patch maps are snapshotted (member names, pointer identities, addresses, bytes). " +
			"Reference: each call run alone, each in its own fresh process. Histories: every ordered pair of (API, class) cells (A then B), and random histories of 50-500 calls with repetition, under pool-sanitizer modes off / poison / fresh and with GOGC=1 in part of them; every result must equal the alone result (success/error, error text and classes, JSON value, bytes for Apply/ApplyIndent/CreateMergePatch/Equal), and every retained output is re-checked at the end of its history. " +
			"non-trivial = a history of >= 2 calls; distinct = distinct call sequence.",
		Assumptions: []string{"a call run alone in a fresh process is the definition of its result", "histories longer than 500 calls are not explored"},
		Setup:       histSetup,
		Finish:      poolFinish,
		Floors: func(t core.Tier, m *core.Merged) []string {
			out := poolFloor(m)
			if m.Modes["poison"] == 0 || m.Modes["fresh"] == 0 || m.Modes["off"] == 0 {
				out = append(out, "not all three pool-sanitizer modes were used")
			}
			for _, api := range []string{"Apply", "ApplyIndent", "ApplyWithOptions", "MergePatch", "MergeMergePatches", "CreateMergePatch", "Equal", "DecodePatch"} {
				if m.Counts["api:"+api] < 500 {
					out = append(out, "fewer than 500 calls of "+api+" inside histories")
				}
			}
			if m.Counts["retained-outputs-rechecked"] < 1000 || m.Counts["history:ok"] < 100 {
				out = append(out, "too few histories / retained outputs")
			}
			return out
		},
		Families: []core.Family{
			{Name: "cell-pairs", Count: n(4000, 300000), Run: func(c *core.Ctx, idx int) {
				if hist.err != "" {
					c.Inconclusive(hist.err)
					return
				}
				// every ordered pair of (API, class) cells, several instances each: A then B, B compared (and A too)
				k := len(hist.names)
				pair := idx % (k * k)
				a, b := hist.cells[hist.names[pair/k]], hist.cells[hist.names[pair%k]]
				calls := []int{a[c.R.Intn(len(a))], b[c.R.Intn(len(b))]}
				runHistory(c, calls, "cell-pair")
				c.Nontrivial(fmt.Sprint(c.Worker%4), fmt.Sprint(calls))
				c.Count("pair:" + hist.names[pair/k] + "->" + hist.names[pair%k])
			}},
			{Name: "random-histories", Count: n(320, 30000), Run: func(c *core.Ctx, idx int) {
				if hist.err != "" {
					c.Inconclusive(hist.err)
					return
				}
				ln := 50 + c.R.Intn(451)
				calls := make([]int, ln)
				// with repetition: a few hot calls recur
				hot := []int{c.R.Intn(len(hist.pool.Calls)), c.R.Intn(len(hist.pool.Calls)), c.R.Intn(len(hist.pool.Calls))}
				for i := range calls {
					if c.R.Intn(3) == 0 {
						calls[i] = hot[c.R.Intn(3)]
					} else {
						calls[i] = c.R.Intn(len(hist.pool.Calls))
					}
				}
				if idx%4 == 3 {
					// pools emptied constantly
					old := debug.SetGCPercent(1)
					defer debug.SetGCPercent(old)
					c.Count("histories-with-GOGC=1")
				}
				runHistory(c, calls, "random")
				c.Nontrivial(fmt.Sprint(c.Worker%4), fmt.Sprint(calls))
				if c.WantSample() {
					var s []string
					for _, ci := range calls[:10] {
						s = append(s, fmt.Sprintf("%s/%s", hist.pool.Calls[ci].API, hist.pool.Calls[ci].Class))
					}
					c.Sample(map[string]any{"length": ln, "first_calls": s, "pool_mode": c.Mode})
				}
			}},
		},
	})
}
