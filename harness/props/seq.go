package props

import (
	"math/rand"
	"strings"

	"github.com/evanphx/json-patch/v5/verifharness/gen"
	jr "github.com/evanphx/json-patch/v5/verifharness/jsonref"
	ref "github.com/evanphx/json-patch/v5/verifharness/ref6902"
)

// SeqCfg controls the state-directed generator of operation sequences: every
// next operation is generated against the state the reference evaluator has
// reached, so that long sequences stay meaningful.
type SeqCfg struct {
	Prof     *gen.Profile // documents
	ValProf  *gen.Profile // values carried by operations
	MinOps   int
	MaxOps   int
	MissRate int      // percent of pointers drawn from the near-miss set
	Kinds    []string // operation kinds to draw from (repeat to weight)
	RootOK   bool     // allow "" as path of add/replace/test and from of copy
	// ContinueAfterFail: after an inapplicable operation keep generating
	// against the last good state (operations that would change the outcome
	// if they were executed).
	ContinueAfterFail bool
	// PlainTest: test values are spelled exactly like the document (v4 domain).
	PlainTest bool
}

var allKinds = []string{"add", "remove", "replace", "move", "copy", "test"}

type SeqCase struct {
	DocText string
	Doc     *jr.Value
	Ops     []ref.Op
	OpTexts []string
	Opts    ref.Opts
}

func (s *SeqCase) Patch() string { return PatchText(s.OpTexts) }

func (s *SeqCase) Canon() string {
	return s.DocText + "\x00" + s.Patch()
}

func (s *SeqCase) Describe() map[string]any {
	return map[string]any{"doc": clip(s.DocText, 2000), "patch": clip(s.Patch(), 4000)}
}

// valueAt returns the current value at path in the dialect (nil if none).
func valueAt(e *ref.Evaluator, path string) *jr.Value {
	saved := e.OOD
	v, c := e.Get(path)
	e.OOD = saved
	if c != ref.OK {
		return nil
	}
	return v
}

// GenOp generates one operation against the evaluator's current state.
func GenOp(r *rand.Rand, e *ref.Evaluator, cfg *SeqCfg) (ref.Op, string) {
	res, miss := gen.Pointers(e.Root)
	kinds := cfg.Kinds
	if len(kinds) == 0 {
		kinds = allKinds
	}
	op := ref.Op{Kind: kinds[r.Intn(len(kinds))]}
	pickPath := func(allowRoot bool) string {
		for i := 0; ; i++ {
			p := gen.Pick(r, res, miss, cfg.MissRate)
			if p != "" || allowRoot || i > 20 {
				if p == "" && !allowRoot {
					return "/zz"
				}
				return p
			}
		}
	}
	switch op.Kind {
	case "add", "replace", "test":
		op.Path = pickPath(cfg.RootOK && r.Intn(4) == 0)
	case "remove":
		op.Path = pickPath(false)
	case "move":
		op.Path = pickPath(false)
		op.From = pickPath(false)
		if r.Intn(40) == 0 {
			op.From = ""
		}
	case "copy":
		op.Path = pickPath(false)
		op.From = pickPath(cfg.RootOK && r.Intn(3) == 0)
	}
	valText := ""
	vp := cfg.ValProf
	if vp == nil {
		vp = cfg.Prof
	}
	switch op.Kind {
	case "add", "replace":
		if op.Path == "" {
			valText = vp.Root(r)
			if r.Intn(8) == 0 {
				valText = vp.Scalar(r)
			}
		} else {
			valText = vp.Value(r, 2)
		}
	case "test":
		cur := valueAt(e, op.Path)
		switch n := r.Intn(10); {
		case cur != nil && n < 5:
			if cfg.PlainTest {
				valText = cur.String()
			} else {
				valText = vp.Respell(r, cur, true) // must pass
			}
		case cur != nil && n < 8:
			if cfg.PlainTest {
				valText = vp.MutateOnePoint(r, cur).String()
			} else {
				valText = vp.Respell(r, vp.MutateOnePoint(r, cur), true) // must fail
			}
		case n == 8:
			valText = "null"
		default:
			valText = vp.Value(r, 2)
		}
	}
	if valText != "" {
		op.Value = mustParse(valText)
		op.HasValue = true
	}
	return op, OpText(op.Kind, op.Path, op.From, valText, op.HasValue)
}

// GenSeq generates a document and a sequence of operations.
func GenSeq(r *rand.Rand, cfg *SeqCfg, o ref.Opts) *SeqCase {
	sc := &SeqCase{Opts: o}
	sc.DocText = cfg.Prof.Root(r)
	sc.Doc = mustParse(sc.DocText)
	n := cfg.MinOps
	if cfg.MaxOps > cfg.MinOps {
		n += r.Intn(cfg.MaxOps - cfg.MinOps + 1)
	}
	e := ref.New(sc.Doc, o)
	for i := 0; i < n; i++ {
		op, text := GenOp(r, e, cfg)
		sc.Ops = append(sc.Ops, op)
		sc.OpTexts = append(sc.OpTexts, text)
		snap := e.Root.Clone()
		if c := e.Step(op); c != ref.OK {
			if !cfg.ContinueAfterFail {
				break
			}
			e.Root = snap
		}
	}
	return sc
}

func opsSummary(ops []ref.Op) string {
	var k []string
	for _, o := range ops {
		k = append(k, o.Kind)
	}
	return strings.Join(k, ",")
}
