package props

import (
	"math/rand"
	"strconv"
	"strings"

	"github.com/evanphx/json-patch/v5/verifharness/gen"
	jr "github.com/evanphx/json-patch/v5/verifharness/jsonref"
	ref "github.com/evanphx/json-patch/v5/verifharness/ref6902"
)

// SeqCfg controls the state-directed generator of operation sequences: every
// next operation is generated against the state the reference evaluator has
// reached, so that long sequences stay meaningful.
type SeqCfg struct {
	Prof     *gen.Profile // documents
	ValProf  *gen.Profile // values carried by operations
	MinOps   int
	MaxOps   int
	MissRate int // percent of pointers drawn from the near-miss set
	// NearNames: the near-miss set is made of absent members whose names differ from a present one by letter case,
	// a trailing blank or the like (gen.NearNamePointers), when there are any.
	NearNames bool
	Kinds     []string // operation kinds to draw from (repeat to weight)
	RootOK    bool     // allow "" as path of add/replace/test and from of copy
	// ContinueAfterFail: after an inapplicable operation keep generating
	// against the last good state (operations that would change the outcome
	// if they were executed).
	ContinueAfterFail bool
	// PlainTest: test values are spelled exactly like the document (v4 domain).
	PlainTest bool
	// origDoc / origText: the document as it was given (set by GenSeq). Some test operations
	// compare a location with the text it had in the input, byte for byte, although the value
	// has changed since: whatever an implementation keeps of the original text must not decide.
	origDoc  *jr.Value
	origText string
}

var allKinds = []string{"add", "remove", "replace", "move", "copy", "test"}

type SeqCase struct {
	DocText string
	Doc     *jr.Value
	Ops     []ref.Op
	OpTexts []string
	Opts    ref.Opts
	// CopySizes, if non-nil, overrides the reference sizes of the accounted
	// copies (lo, hi per copy; hi < 0 = unknown). See outputSpellingSizes.
	CopySizes [][2]int
}

func (s *SeqCase) Patch() string { return PatchText(s.OpTexts) }

func (s *SeqCase) Canon() string {
	return s.DocText + "\x00" + s.Patch()
}

func (s *SeqCase) Describe() map[string]any {
	return map[string]any{"doc": clip(s.DocText, 2000), "patch": clip(s.Patch(), 4000)}
}

// valueAt returns the current value at path in the dialect (nil if none).
func valueAt(e *ref.Evaluator, path string) *jr.Value {
	saved := e.OOD
	v, c := e.Get(path)
	e.OOD = saved
	if c != ref.OK {
		return nil
	}
	return v
}

// GenOp generates one operation against the evaluator's current state.
func GenOp(r *rand.Rand, e *ref.Evaluator, cfg *SeqCfg) (ref.Op, string) {
	res, miss := gen.Pointers(e.Root)
	if cfg.NearNames {
		if nm := gen.NearNamePointers(e.Root); len(nm) > 0 {
			miss = nm
		}
	}
	kinds := cfg.Kinds
	if len(kinds) == 0 {
		kinds = allKinds
	}
	op := ref.Op{Kind: kinds[r.Intn(len(kinds))]}
	pickPath := func(allowRoot bool) string {
		for i := 0; ; i++ {
			p := gen.Pick(r, res, miss, cfg.MissRate)
			if p != "" || allowRoot || i > 20 {
				if p == "" && !allowRoot {
					return "/zz"
				}
				return p
			}
		}
	}
	switch op.Kind {
	case "add", "replace", "test":
		op.Path = pickPath(cfg.RootOK && r.Intn(4) == 0)
	case "remove":
		op.Path = pickPath(false)
	case "move":
		op.Path = pickPath(false)
		op.From = pickPath(false)
		if r.Intn(40) == 0 {
			op.From = ""
		}
	case "copy":
		op.Path = pickPath(false)
		op.From = pickPath(cfg.RootOK && r.Intn(3) == 0)
	}
	valText := ""
	vp := cfg.ValProf
	if vp == nil {
		vp = cfg.Prof
	}
	switch op.Kind {
	case "add", "replace":
		if op.Path == "" {
			valText = vp.Root(r)
			if r.Intn(8) == 0 {
				valText = vp.Scalar(r)
			}
		} else {
			valText = vp.Value(r, 2)
		}
	case "test":
		cur := valueAt(e, op.Path)
		if cfg.origDoc != nil && r.Intn(6) == 0 {
			// a location whose value differs from what the input held there
			var cands []string
			for _, pt := range res {
				if ov := cfg.origDoc.Resolve(pt); ov != nil && (ov.K == jr.Obj || ov.K == jr.Arr) {
					if cv := valueAt(e, pt); cv != nil && !jr.Equal(ov, cv, jr.EqMode{}) {
						cands = append(cands, pt)
					}
				}
			}
			if len(cands) > 0 {
				op.Path = cands[r.Intn(len(cands))]
				ov := cfg.origDoc.Resolve(op.Path)
				valText = cfg.origText[ov.Off:ov.End]
				op.Value = mustParse(valText)
				op.HasValue = true
				return op, OpText(op.Kind, op.Path, op.From, valText, true)
			}
		}
		switch n := r.Intn(10); {
		case cur != nil && n < 5:
			if cfg.PlainTest {
				valText = cur.String()
			} else {
				valText = vp.Respell(r, cur, true) // must pass
			}
		case cur != nil && n < 8:
			if cfg.PlainTest {
				valText = vp.MutateOnePoint(r, cur).String()
			} else {
				valText = vp.Respell(r, vp.MutateOnePoint(r, cur), true) // must fail
			}
		case n == 8:
			valText = "null"
		default:
			valText = vp.Value(r, 2)
		}
	}
	if valText != "" {
		op.Value = mustParse(valText)
		op.HasValue = true
	}
	return op, OpText(op.Kind, op.Path, op.From, valText, op.HasValue)
}

// GenSeq generates a document and a sequence of operations.
func GenSeq(r *rand.Rand, cfg *SeqCfg, o ref.Opts) *SeqCase {
	sc := &SeqCase{Opts: o}
	sc.DocText = cfg.Prof.Root(r)
	sc.Doc = mustParse(sc.DocText)
	n := cfg.MinOps
	if cfg.MaxOps > cfg.MinOps {
		n += r.Intn(cfg.MaxOps - cfg.MinOps + 1)
	}
	e := ref.New(sc.Doc, o)
	lc := *cfg
	lc.origDoc, lc.origText = sc.Doc, sc.DocText
	cfg = &lc
	for i := 0; i < n; i++ {
		op, text := GenOp(r, e, cfg)
		sc.Ops = append(sc.Ops, op)
		sc.OpTexts = append(sc.OpTexts, text)
		snap := e.Root.Clone()
		if c := e.Step(op); c != ref.OK {
			if !cfg.ContinueAfterFail {
				break
			}
			e.Root = snap
		}
	}
	return sc
}

func opsSummary(ops []ref.Op) string {
	var k []string
	for _, o := range ops {
		k = append(k, o.Kind)
	}
	return strings.Join(k, ",")
}

// GenMotionSeq generates "relocation chains": every operation is applicable
// and values that were copied, moved or added earlier are copied and moved
// again, into and out of each other (copy X to Y then move Y beneath X, move a
// container beneath a copy of itself, copy the root into itself, ...). Any
// sharing of nodes between two locations of the live tree - which no single
// operation reveals - turns into a wrong value or a cycle under such chains.
func GenMotionSeq(r *rand.Rand, prof *gen.Profile, o ref.Opts, maxOps int, rootOK bool) *SeqCase {
	sc := &SeqCase{Opts: o}
	sc.DocText = prof.Root(r)
	sc.Doc = mustParse(sc.DocText)
	e := ref.New(sc.Doc, o)
	var hot []string
	n := 2 + r.Intn(maxOps-1)
	fresh := 0
	for tries := 0; len(sc.Ops) < n && tries < 6*n; tries++ {
		res, _ := gen.Pointers(e.Root)
		pick0 := func() string {
			if len(hot) > 0 && r.Intn(3) > 0 {
				h := hot[r.Intn(len(hot))]
				if valueAt(e, h) != nil {
					return h
				}
			}
			return res[r.Intn(len(res))]
		}
		pick := func() string {
			// an array element may be named from the end: index i of n elements is i-n
			pt := pick0()
			if o.NegIdx && r.Intn(4) == 0 {
				if i := strings.LastIndex(pt, "/"); i >= 0 {
					if par := valueAt(e, pt[:i]); par != nil && par.K == jr.Arr {
						if n, err := strconv.Atoi(pt[i+1:]); err == nil && n < len(par.A) {
							return pt[:i+1] + strconv.Itoa(n-len(par.A))
						}
					}
				}
			}
			return pt
		}
		beneath := func(t string) string {
			// a location below t if t is a container, t itself otherwise
			v := valueAt(e, t)
			if v == nil {
				return t
			}
			switch v.K {
			case jr.Obj:
				if len(v.Keys) > 0 && r.Intn(4) == 0 {
					return t + "/" + jr.EncTok(v.Keys[r.Intn(len(v.Keys))])
				}
				fresh++
				return t + "/n" + itoa(fresh)
			case jr.Arr:
				switch r.Intn(3) {
				case 0:
					return t + "/-"
				case 1:
					return t + "/0"
				}
				return t + "/" + itoa(len(v.A))
			}
			return t
		}
		var op ref.Op
		valText := ""
		switch k := r.Intn(10); {
		case k < 4:
			op = ref.Op{Kind: "copy", From: pick(), Path: beneath(pick())}
			if rootOK && r.Intn(8) == 0 {
				op.From = ""
			}
		case k < 8:
			op = ref.Op{Kind: "move", From: pick(), Path: beneath(pick())}
		case k < 9:
			valText = []string{`{}`, `[]`, `{"k":{"l":[1]}}`, `[[],{}]`, `null`, `1`}[r.Intn(6)]
			op = ref.Op{Kind: "add", Path: beneath(pick()), Value: mustParse(valText), HasValue: true}
		default:
			t := pick()
			if cur := valueAt(e, t); cur != nil {
				valText = cur.String()
				op = ref.Op{Kind: "test", Path: t, Value: mustParse(valText), HasValue: true}
			} else {
				continue
			}
		}
		if op.Path == "" || (op.Kind != "copy" && op.Kind != "add" && op.Kind != "test" && op.From == "") {
			continue
		}
		snap := e.Root.Clone()
		savedOOD := e.OOD
		if c := e.Step(op); c != ref.OK || e.OOD != savedOOD {
			e.Root = snap
			e.OOD = savedOOD
			continue
		}
		sc.Ops = append(sc.Ops, op)
		sc.OpTexts = append(sc.OpTexts, OpText(op.Kind, op.Path, op.From, valText, op.HasValue))
		if op.Kind != "test" {
			hot = append(hot, op.Path)
			if op.Kind == "copy" && op.From != "" {
				hot = append(hot, op.From)
			}
			if i := strings.LastIndex(op.Path, "/"); i > 0 {
				hot = append(hot, op.Path[:i])
			}
		}
	}
	return sc
}

func itoa(i int) string { return strconv.Itoa(i) }
