package props

import (
	"unicode/utf8"

	"github.com/evanphx/json-patch/v5/verifharness/mon"
	ref "github.com/evanphx/json-patch/v5/verifharness/ref6902"
)

func isUTF8(b []byte) bool { return utf8.Valid(b) }

// Known-finding matchers. A matcher returns the id of a finding only when the
// observation is exactly what that finding describes; it has an effect only
// while the id is listed in known_findings.jsonl with status "finding".

func panicFindings(p *mon.Panic) []string { return nil }

func applyFindings(sc *SeqCase, o V5Opts, res ApplyResult, want ref.Result) []string { return nil }

func robustFindings(pkg, api string, pn *mon.Panic, args map[string]any) []string { return nil }
