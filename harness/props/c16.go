package props

import (
	"bytes"
	stdjson "encoding/json"
	"fmt"
	"strings"

	jp "github.com/evanphx/json-patch/v5"
	ij "github.com/evanphx/json-patch/v5/internal/json"
	"github.com/evanphx/json-patch/v5/verifharness/core"
	"github.com/evanphx/json-patch/v5/verifharness/gen"
	jr "github.com/evanphx/json-patch/v5/verifharness/jsonref"
	"github.com/evanphx/json-patch/v5/verifharness/mon"
)

var byteAlphabet = []byte("{}[]:,\"\\01-+.eE \na\x00\xc3")

var tokenAlphabet = []string{"{", "}", "[", "]", ":", ",", "true", "false", "null", "tru", "nul", "True", "0", "1", "-", "-0", "01", "1.5", "1.", ".5", "1e5", "1e", "1E+2", "+1",
	`"`, `"a"`, `""`, `"\n"`, `"` + gen.U("0041") + `"`, `"\u12"`, `"` + gen.U("d800") + `"`, `"\x"`, `"\'"`, `"\a"`, `"\/"`, `'a'`, "\"\xff\xff\xff\xff\xff\xfe0123456789ab\"", " ", "\t", "\r", "\n", "\f", "\x00", "\x7f", "\xc3\xa9", "\xff", "\xef\xbb\xbf"}

func powSum(base, maxLen int) int {
	n, p := 0, 1
	for l := 0; l <= maxLen; l++ {
		n += p
		p *= base
	}
	return n
}

// nthString enumerates all sequences of up to maxLen symbols: index -> sequence.
func nthSeq(idx, base int) []int {
	l, p := 0, 1
	for idx >= p {
		idx -= p
		p *= base
		l++
	}
	out := make([]int, l)
	for i := l - 1; i >= 0; i-- {
		out[i] = idx % base
		idx /= base
	}
	return out
}

// judgeCodec compares the embedded codec's four acceptors with the RFC 8259
// recogniser (UTF-8 texts) and with encoding/json (all texts).
func judgeCodec(c *core.Ctx, b []byte, kind string) {
	std := stdjson.Valid(b)
	want := std
	if isUTF8(b) {
		want = jr.Valid(b)
		if want != std {
			c.Inconclusive(fmt.Sprintf("oracle disagreement: jsonref=%v encoding/json=%v on %q", want, std, clip(string(b), 200)))
			return
		}
	}
	var valid bool
	var cerr, ierr, uerr error
	var v any
	pn := mon.Try(func() {
		valid = ij.Valid(b)
		var cb, ib bytes.Buffer
		cerr = ij.Compact(&cb, b)
		ierr = ij.Indent(&ib, b, "", " ")
		uerr = ij.Unmarshal(b, &v)
	})
	c.Eval(4)
	d := map[string]any{"input": fmt.Sprintf("%q", clip(string(b), 400)), "rfc8259": want, "Valid": valid, "Compact": errText(cerr), "Indent": errText(ierr), "Unmarshal": errText(uerr), "kind": kind}
	if pn != nil {
		d["panic"] = panicDetail(pn)
		c.Violation("codec:"+pn.Sig(), d)
		return
	}
	for _, x := range []struct {
		name string
		ok   bool
	}{{"Valid", valid}, {"Compact", cerr == nil}, {"Indent", ierr == nil}, {"Unmarshal", uerr == nil}} {
		if x.ok != want {
			if want {
				c.Violation("codec:"+x.name+"-rejects-wellformed-text:"+kind, d)
			} else {
				c.Violation("codec:"+x.name+"-accepts-illformed-text:"+kind, d)
			}
			return
		}
	}
	if want {
		c.Count("codec:agree-accept")
	} else {
		c.Count("codec:agree-reject")
	}
	if len(b) > 0 {
		c.Nontrivial(string(b))
	}
	if c.WantSample() && len(b) > 2 {
		c.Sample(d)
	}
}

type gate struct {
	name string
	// call returns (accepted, answer) for input x in this parameter position
	call func(x []byte) bool
	// shape tells whether a well-formed x has the right shape for this parameter
	shape func(v *jr.Value, b []byte) bool
}

func containerRoot(v *jr.Value, _ []byte) bool { return v.K == jr.Obj || v.K == jr.Arr }
func objectRoot(v *jr.Value, _ []byte) bool    { return v.K == jr.Obj }
func nonNull(v *jr.Value, _ []byte) bool       { return v.K != jr.Null }
func anyRoot(v *jr.Value, _ []byte) bool       { return true }

// the array form of CreateMergePatch: both arguments arrays of objects of the same length
func oneObjectArray(v *jr.Value, _ []byte) bool {
	return v.K == jr.Arr && len(v.A) == 1 && v.A[0].K == jr.Obj
}
func objectsOrObject(v *jr.Value, _ []byte) bool {
	if v.K == jr.Arr {
		for _, e := range v.A {
			if e.K != jr.Obj {
				return false
			}
		}
	}
	return v.K == jr.Obj || v.K == jr.Arr
}

var emptyPatch = func() jp.Patch { p, _ := jp.DecodePatch([]byte(`[]`)); return p }()

var gates = []gate{
	{"DecodePatch", func(x []byte) bool { _, err := jp.DecodePatch(x); return err == nil }, func(v *jr.Value, b []byte) bool { _, rej := refAccept(b); return rej == "" }},
	{"Apply(doc)", func(x []byte) bool { _, err := emptyPatch.Apply(x); return err == nil }, containerRoot},
	{"ApplyIndent(doc)", func(x []byte) bool { _, err := emptyPatch.ApplyIndent(x, " "); return err == nil }, containerRoot},
	{"MergePatch(doc,_)", func(x []byte) bool { _, err := jp.MergePatch(x, []byte(`{"k":1}`)); return err == nil }, nonNull},
	{"MergePatch(_,patch)", func(x []byte) bool { _, err := jp.MergePatch([]byte(`{"k":1}`), x); return err == nil }, anyRoot},
	{"MergePatch(doc,[..])", func(x []byte) bool { _, err := jp.MergePatch(x, []byte(` [1,{"a":null}] `)); return err == nil }, nonNull},
	{"MergePatch(doc,scalar)", func(x []byte) bool { _, err := jp.MergePatch(x, []byte(`"s"`)); return err == nil }, nonNull},
	{"MergeMergePatches(p1,[..])", func(x []byte) bool { _, err := jp.MergeMergePatches(x, []byte(`[1]`)); return err == nil }, objectRoot},
	{"MergeMergePatches(p1,_)", func(x []byte) bool { _, err := jp.MergeMergePatches(x, []byte(`{"k":1}`)); return err == nil }, objectRoot},
	{"MergeMergePatches(_,p2)", func(x []byte) bool { _, err := jp.MergeMergePatches([]byte(`{"k":1}`), x); return err == nil }, anyRoot},
	{"CreateMergePatch(a,_)", func(x []byte) bool { _, err := jp.CreateMergePatch(x, []byte(`{"k":1}`)); return err == nil }, objectRoot},
	{"CreateMergePatch(_,b)", func(x []byte) bool { _, err := jp.CreateMergePatch([]byte(`{"k":1}`), x); return err == nil }, objectRoot},
	{"CreateMergePatch([..],_)", func(x []byte) bool { _, err := jp.CreateMergePatch(x, []byte(`[{"k":1}]`)); return err == nil }, oneObjectArray},
	{"CreateMergePatch(_,[..])", func(x []byte) bool { _, err := jp.CreateMergePatch([]byte(` [{"k":1}] `), x); return err == nil }, oneObjectArray},
	{"CreateMergePatch(x,x)", func(x []byte) bool { _, err := jp.CreateMergePatch(x, append([]byte{}, x...)); return err == nil }, objectsOrObject},
	{"Equal(x,x)", func(x []byte) bool { return jp.Equal(x, append([]byte{}, x...)) }, anyRoot},
	{"Equal(x,{})", func(x []byte) bool { jp.Equal(x, []byte(`{}`)); return jp.Equal([]byte(`{}`), x) }, func(v *jr.Value, _ []byte) bool { return v.K == jr.Obj && len(v.Keys) == 0 }},
}

// judgeGates: every public entry point rejects an ill-formed text and accepts
// a well-formed one of the right shape, in each []byte parameter in turn.
func judgeGates(c *core.Ctx, b []byte, kind string) {
	std := stdjson.Valid(b)
	wf := std
	var v *jr.Value
	if isUTF8(b) {
		var err error
		v, err = jr.Parse(b)
		wf = err == nil
		if wf != std {
			c.Inconclusive(fmt.Sprintf("oracle disagreement on %q", clip(string(b), 200)))
			return
		}
	} else if std {
		v, _ = jr.Parse(b)
	}
	for _, g := range gates {
		var acc bool
		pn := mon.Try(func() { acc = g.call(b) })
		c.Eval(1)
		d := map[string]any{"entry_point": g.name, "input": fmt.Sprintf("%q", clip(string(b), 400)), "wellformed": wf, "accepted": acc, "kind": kind}
		if pn != nil {
			d["panic"] = panicDetail(pn)
			c.Violation("gate:"+g.name+":"+pn.Sig(), d)
			continue
		}
		switch {
		case !wf && acc:
			var cands []string
			if len(b) == 0 && strings.HasPrefix(g.name, "Apply") {
				cands = []string{"F01"}
			}
			c.Violation("gate:"+g.name+"-accepts-illformed-text", d, cands...)
		case !wf:
			c.Count("gate:rejects-illformed")
		case v != nil && g.shape(v, b) && !v.HasDup():
			if !acc {
				c.Violation("gate:"+g.name+"-rejects-wellformed-text-of-right-shape", d)
			} else {
				c.Count("gate:accepts-wellformed")
			}
		default:
			c.Count("gate:wrong-shape-not-compared")
		}
	}
}

func deep(open, close, leaf string, n int) []byte {
	return []byte(strings.Repeat(open, n) + leaf + strings.Repeat(close, n))
}

func init() {
	n := func(q, t int) func(core.Tier) int {
		return func(tier core.Tier) int {
			if tier == core.Thorough {
				return t
			}
			return q
		}
	}
	prof := gen.Hostile().With(func(p *gen.Profile) { p.Lone = true; p.Dup = true; p.WS = 20 })
	core.Register(&core.Prop{
		ID:    "C16",
		Title: "Exactly RFC 8259 JSON is accepted, everywhere",
		Rule: "Language equality by enumeration and sampling: the embedded codec's Valid, Compact, Indent and Unmarshal(&any) against an independent RFC 8259 recogniser (encoding/json must side with the recogniser, else the run is inconclusive). Exhaustive: all byte strings of length <= 4 (thorough: 5) over 20 symbols, all sequences of <= 3 (thorough: 4) tokens out of 42 (structural characters, literals and near-misses, number and string fragments incl. bad escapes and surrogates, legal and illegal whitespace, control bytes, multi-byte and ill-formed UTF-8); " +
			"grammar-generated texts and their byte mutations; nesting 9999/10000/10001. Entry-point gates: each []byte parameter of DecodePatch, Apply, ApplyIndent, MergePatch, MergeMergePatches, CreateMergePatch, Equal in turn is given the token-level set and generated/mutated texts with whitespace wrapping: ill-formed => error (Equal false), well-formed of the right shape => accepted. " +
			"non-trivial = non-empty input; distinct = distinct input bytes.",
		Assumptions: []string{"jsonref recogniser implements RFC 8259 with the 10000 nesting limit; encoding/json is the second opinion", "ill-formed UTF-8 is compared with encoding/json only"},
		Setup:       setPoolMode,
		Finish:      poolFinish,
		Floors: func(t core.Tier, m *core.Merged) []string {
			out := poolFloor(m)
			if m.Counts["codec:agree-accept"] < 10000 || m.Counts["codec:agree-reject"] < 10000 {
				out = append(out, "codec accept/reject agreements fewer than 10000 each")
			}
			if m.Counts["gate:rejects-illformed"] < 10000 || m.Counts["gate:accepts-wellformed"] < 5000 {
				out = append(out, "gate decisions too few")
			}
			if m.Counts["depth:checked"] < 9 {
				out = append(out, "nesting-depth family incomplete")
			}
			return out
		},
		Families: []core.Family{
			{Name: "bytes-exhaustive", Exhaustive: true, Count: func(t core.Tier) int {
				if t == core.Thorough {
					return powSum(len(byteAlphabet), 5)
				}
				return powSum(len(byteAlphabet), 4)
			}, Run: func(c *core.Ctx, idx int) {
				seq := nthSeq(idx, len(byteAlphabet))
				b := make([]byte, len(seq))
				for i, s := range seq {
					b[i] = byteAlphabet[s]
				}
				judgeCodec(c, b, "bytes")
			}},
			{Name: "tokens-exhaustive", Exhaustive: true, Count: func(t core.Tier) int {
				if t == core.Thorough {
					return powSum(len(tokenAlphabet), 4)
				}
				return powSum(len(tokenAlphabet), 3)
			}, Run: func(c *core.Ctx, idx int) {
				var sb strings.Builder
				for _, s := range nthSeq(idx, len(tokenAlphabet)) {
					sb.WriteString(tokenAlphabet[s])
				}
				judgeCodec(c, []byte(sb.String()), "tokens")
			}},
			{Name: "gates-tokens-exhaustive", Exhaustive: true, Count: func(t core.Tier) int {
				if t == core.Thorough {
					return powSum(len(tokenAlphabet), 3)
				}
				return powSum(len(tokenAlphabet), 2)
			}, Run: func(c *core.Ctx, idx int) {
				var sb strings.Builder
				for _, s := range nthSeq(idx, len(tokenAlphabet)) {
					sb.WriteString(tokenAlphabet[s])
				}
				judgeGates(c, []byte(sb.String()), "tokens")
			}},
			{Name: "generated-and-mutated", Count: n(100000, 3000000), Run: func(c *core.Ctx, idx int) {
				t := prof.Any(c.R)
				if idx%2 == 1 {
					t = gen.Mutate(c.R, t, prof.Any(c.R))
				}
				judgeCodec(c, []byte(t), "generated")
			}},
			{Name: "gates-generated", Count: n(25000, 500000), Run: func(c *core.Ctx, idx int) {
				var t string
				switch idx % 4 {
				case 0:
					t = prof.Any(c.R)
				case 1:
					cfg := &SeqCfg{Prof: gen.Hostile().With(func(p *gen.Profile) { p.Keys = c01Keys }), MinOps: 0, MaxOps: 4, MissRate: 30, RootOK: true, ContinueAfterFail: true}
					t = GenSeq(c.R, cfg, V5Opts{NegIdx: true}.Ref()).Patch()
					if c.R.Intn(2) == 0 {
						// the same patch with every string and member name (op, path, from and their values
						// included) spelled with random escapes, members shuffled, whitespace between tokens
						t = gen.Hostile().With(func(p *gen.Profile) { p.WS = 25 }).Respell(c.R, mustParse(t), true)
					}
				case 2:
					// arrays of objects (the array form of CreateMergePatch), also with something wrong outside the elements
					var es []string
					for k := c.R.Intn(3); k >= 0; k-- {
						es = append(es, prof.Object(c.R, 2))
					}
					t = "[" + strings.Join(es, []string{",", ",", ",", " ", ",,"}[c.R.Intn(5)]) + []string{"]", "]", "]", "]]", ",]", "] , [3]", `]{"x":[]`, "] ]"}[c.R.Intn(8)]
				default:
					t = prof.Root(c.R)
				}
				switch c.R.Intn(3) {
				case 0:
					t = gen.Mutate(c.R, t, prof.Any(c.R))
				case 1:
					ws := []string{" ", "\n", "\r", "\t", "  \r\n\t "}
					t = ws[c.R.Intn(len(ws))] + t + ws[c.R.Intn(len(ws))]
				}
				judgeGates(c, []byte(t), "generated")
			}},
			{Name: "nesting-depth", Exhaustive: true, Count: func(core.Tier) int { return 9 }, Run: func(c *core.Ctx, idx int) {
				depth := []int{9999, 10000, 10001}[idx%3]
				var b []byte
				switch idx / 3 {
				case 0:
					b = deep("[", "]", "", depth)
				case 1:
					b = deep(`{"a":`, "}", "1", depth)
				default:
					k, leaf := (depth-1)/2, "[]"
					if depth%2 == 0 {
						k, leaf = (depth-2)/2, "[[]]"
					}
					b = []byte(strings.Repeat(`[{"a":`, k) + leaf + strings.Repeat("}]", k))
				}
				judgeCodec(c, b, "depth")
				judgeGates(c, b, "depth")
				c.Count("depth:checked")
			}},
		},
	})
}
