package props

import (
	"fmt"
	"sync"

	"github.com/evanphx/json-patch/v5/verifharness/core"
	"github.com/evanphx/json-patch/v5/verifharness/gen"
	jr "github.com/evanphx/json-patch/v5/verifharness/jsonref"
	ref "github.com/evanphx/json-patch/v5/verifharness/ref6902"
)

// Fixed documents of the bounded-exhaustive families: together they contain
// every shape the generators know (nested objects and arrays, empty
// containers, null as member and as element, names needing ~0/~1, numeric
// looking names, odd number spellings).
var fixedDocs = []string{
	`{"a":1,"b":{"c":[1,2,3],"d":null},"e":"s"}`,
	`[1,[2,3],{"a":null},null,"x"]`,
	`{"a/b":{"m~n":1},"0":[],"":7}`,
	`{"~1":{"/":1,"~":2,"~0":3},"/":[4],"~01":5,"~10":{"~1":6}}`,
	`{}`,
	`[]`,
	`[[[]]]`,
	`{"a":{"a":{"a":1.0}},"b":[{"a":-0},{"a":1e400}]}`,
	`{"x<y":"<&>","k":[true,false,null],"n":12345678901234567890123}`,
	`[{"a":1,"b":2},{"b":2,"a":1},[],{}]`,
	`{"a":[null,null],"b":{"c":null}}`,
	`{"1":{"-1":"v"},"01":[0,1]}`,
	`[0,1,2,3,4]`,
}

var fixedValues = []string{`1`, `null`, `"s"`, `{"k":[null]}`, `[1,{"a":null}]`, `{}`}

type singleCase struct {
	doc  int
	op   ref.Op
	text string
	neg  bool
}

var (
	singleOnce  sync.Once
	singleCases []singleCase
)

func buildSingles() {
	for di, d := range fixedDocs {
		v := mustParse(d)
		res, miss := gen.Pointers(v)
		all := append(append([]string{}, res...), miss...)
		for _, neg := range []bool{true, false} {
			for _, p := range all {
				for _, k := range []string{"add", "replace", "test"} {
					vals := fixedValues
					if k == "test" {
						// also the value that is there, and a one-point variation
						e := ref.New(v, ref.Opts{NegIdx: neg})
						if cur := valueAt(e, p); cur != nil {
							vals = append(append([]string{}, fixedValues...), cur.String())
						}
					}
					for _, val := range vals {
						singleCases = append(singleCases, singleCase{di, ref.Op{Kind: k, Path: p, Value: mustParse(val), HasValue: true}, OpText(k, p, "", val, true), neg})
					}
				}
				singleCases = append(singleCases, singleCase{di, ref.Op{Kind: "remove", Path: p}, OpText("remove", p, "", "", false), neg})
				for _, f := range all {
					for _, k := range []string{"move", "copy"} {
						singleCases = append(singleCases, singleCase{di, ref.Op{Kind: k, Path: p, From: f}, OpText(k, p, f, "", false), neg})
					}
				}
			}
		}
	}
}

func nSingles() int {
	singleOnce.Do(buildSingles)
	return len(singleCases)
}

// cmpMode selects how the output is compared with the reference.
type cmpMode struct {
	ordered bool // C05: member order and literals
}

// judgeApply compares one Apply call of the library with the reference
// evaluation of the same sequence. It returns true when the case was inside
// the comparing domain.
func judgeApply(c *core.Ctx, sc *SeqCase, o V5Opts, res ApplyResult, want ref.Result, m cmpMode) bool {
	c.Eval(1)
	detail := func(extra map[string]any) map[string]any {
		d := sc.Describe()
		d["options"] = o.String()
		if want.Doc != nil {
			d["reference"] = clip(want.Doc.String(), 2000)
		} else {
			d["reference"] = fmt.Sprintf("fails at operation %d (%s): %s", want.FailIndex, sc.Ops[want.FailIndex].Kind, want.Cause)
		}
		if res.Out != nil {
			d["library_output"] = clip(string(res.Out), 2000)
		}
		if res.Err != nil {
			d["library_error"] = res.Err.Error()
		}
		if res.Events != nil {
			d["ops_executed"] = len(res.Events.Done)
			if res.Events.Ended && res.Events.Inv.Shared > 0 {
				d["h4_nodes_shared_between_locations"] = res.Events.Inv.Shared
			}
		}
		for k, v := range extra {
			d[k] = v
		}
		return d
	}
	if want.OutOfDom != "" {
		c.Count("out_of_domain")
		c.Count("ood:" + want.OutOfDom)
		return false
	}
	c.Count("in_domain")
	if res.Events != nil && res.Events.Ended {
		c.Count("h4.walks")
		c.CountN("h4.nodes_shared_between_locations", int64(res.Events.Inv.Shared))
	}
	if res.Panic != nil {
		c.Violation(res.Panic.Sig(), detail(panicDetail(res.Panic)), panicFindings(res.Panic)...)
		return true
	}
	if res.DecodeErr != nil {
		c.Violation("decode-rejects-generated-patch", detail(map[string]any{"decode_error": res.DecodeErr.Error()}))
		return true
	}
	lastKind := ""
	if res.Events != nil && len(res.Events.Done) > 0 {
		lastKind = res.Events.Done[len(res.Events.Done)-1].Kind
	}
	switch {
	case want.Doc == nil && res.Err == nil:
		c.Violation(fmt.Sprintf("library-succeeds-reference-fails:%s@%s", want.Cause, sc.Ops[want.FailIndex].Kind), detail(nil), applyFindings(sc, o, res, want)...)
	case want.Doc != nil && res.Err != nil:
		c.Violation("library-fails-reference-succeeds@"+lastKind, detail(nil), applyFindings(sc, o, res, want)...)
	case want.Doc == nil:
		c.Count("agree:fail:" + want.Cause.String())
	default:
		got, err := jr.Parse(res.Out)
		if err != nil {
			c.Violation("output-not-json", detail(nil))
			return true
		}
		if !jr.Equal(want.Doc, got, jr.EqMode{}) {
			c.Violation("value-mismatch:last="+sc.Ops[len(sc.Ops)-1].Kind, detail(nil), applyFindings(sc, o, res, want)...)
		} else if m.ordered && !jr.Equal(want.Doc, got, jr.EqMode{Ordered: true}) {
			c.Violation("member-order-mismatch", detail(nil))
		} else {
			c.Count("agree:ok")
		}
	}
	return true
}

// c01RunHuge: as c01Run, with index tokens beyond the int range read as plain out-of-range indices.
func c01RunHuge(c *core.Ctx, sc *SeqCase, o V5Opts) {
	r := o.Ref()
	r.HugeIndices = true
	want := ref.Eval(sc.Doc, sc.Ops, r)
	res := ApplyV5(sc.DocText, sc.Patch(), o, "")
	if judgeApply(c, sc, o, res, want, cmpMode{}) {
		c.Nontrivial(sc.Canon(), o.String())
	}
}

func c01Run(c *core.Ctx, sc *SeqCase, o V5Opts) {
	want := ref.Eval(sc.Doc, sc.Ops, o.Ref())
	res := ApplyV5(sc.DocText, sc.Patch(), o, "")
	if judgeApply(c, sc, o, res, want, cmpMode{}) {
		if len(sc.Ops) > 0 {
			c.Nontrivial(sc.Canon(), o.String())
		}
		for i, ev := range res.Events.Done {
			if i > 0 {
				c.Count("op-executed-at-position>=2:" + ev.Kind)
			}
		}
	}
	if c.WantSample() {
		d := sc.Describe()
		d["options"] = o.String()
		d["library_output"] = clip(string(res.Out), 300)
		d["library_error"] = errText(res.Err)
		c.Sample(d)
	}
}

func init() {
	seqCfg := &SeqCfg{Prof: gen.Hostile().With(func(p *gen.Profile) { p.Keys = c01Keys }), MinOps: 1, MaxOps: 12, MissRate: 15, RootOK: true}
	core.Register(&core.Prop{
		ID:    "C01",
		Title: "RFC 6902 application computes the RFC result (v5)",
		Rule: "Each case is (document, patch, options) run through DecodePatch+ApplyWithOptions of the real library and through the independent reference evaluator ref6902; " +
			"non-trivial = inside the property's comparing domain with at least one operation; distinct = distinct (document text, patch text, options). " +
			"Families: all single operations over 12 fixed documents x their resolvable-plus-near-miss pointer universe (exhaustive, seed independent); random state-directed sequences (later operations generated against the state the reference has reached); " +
			"dedicated sub-families for copy isolation, null-then-test, move = remove+add, root replacement followed by further operations.",
		Assumptions: []string{
			"the reference evaluator ref6902 and the parser jsonref are correct (self-tested on the RFC 6902 appendix A and RFC 6901 section 5 examples, cross-checked with encoding/json on every run)",
			"cases are a fixed seeded list; nothing outside the generator bounds (depth <= 5, <= 40 operations, <= 64 KiB) is explored",
		},
		Setup:  setPoolMode,
		Finish: poolFinish,
		Floors: func(t core.Tier, m *core.Merged) []string {
			out := poolFloor(m)
			for _, k := range allKinds {
				if m.Counts["op-executed-at-position>=2:"+k] < 50 {
					out = append(out, "operation "+k+" executed fewer than 50 times in second-or-later position")
				}
			}
			if m.Counts["in_domain"] < m.Counts["out_of_domain"] {
				out = append(out, "fewer in-domain than out-of-domain cases")
			}
			return out
		},
		Families: []core.Family{
			{Name: "operations-deep-down", Exhaustive: true, Count: func(core.Tier) int { return len(deepDepths) * 2 }, Run: func(c *core.Ctx, idx int) {
				c01Run(c, deepOpsCase(deepDepths[idx/2], idx%2), V5Opts{NegIdx: idx%4 < 2, EscapeHTML: true})
				c.Count("deep:cases")
			}},
			{Name: "indices-beyond-the-int-range", Exhaustive: true, Count: func(core.Tier) int { return len(hugeIdxToks18) * 5 * 2 * 2 }, Run: func(c *core.Ctx, idx int) {
				tok := hugeIdxToks18[idx%len(hugeIdxToks18)]
				idx /= len(hugeIdxToks18)
				kind := idx % 5
				idx /= 5
				neg := idx%2 == 0
				doc, arr := `["a","b","c"]`, ""
				if idx/2 == 1 {
					doc, arr = `{"l":["a","b","c"],"k":1}`, "/l"
				}
				var op ref.Op
				var text string
				path := arr + "/" + tok
				switch kind {
				case 0:
					op, text = ref.Op{Kind: "remove", Path: path}, OpText("remove", path, "", "", false)
				case 1:
					op, text = ref.Op{Kind: "test", Path: path, Value: mustParse(`"a"`), HasValue: true}, OpText("test", path, "", `"a"`, true)
				case 2:
					op, text = ref.Op{Kind: "replace", Path: path, Value: mustParse(`"z"`), HasValue: true}, OpText("replace", path, "", `"z"`, true)
				case 3:
					op, text = ref.Op{Kind: "move", From: path, Path: arr + "/0"}, OpText("move", arr+"/0", path, "", false)
				default:
					op, text = ref.Op{Kind: "copy", From: path, Path: arr + "/0"}, OpText("copy", arr+"/0", path, "", false)
				}
				sc := &SeqCase{DocText: doc, Doc: mustParse(doc), Ops: []ref.Op{op}, OpTexts: []string{text}}
				c01RunHuge(c, sc, V5Opts{NegIdx: neg, EscapeHTML: true})
				c.Count("huge-index:cases")
			}},
			{Name: "single-op-exhaustive", Exhaustive: true, Count: func(core.Tier) int { return nSingles() }, Run: func(c *core.Ctx, idx int) {
				s := singleCases[idx]
				sc := &SeqCase{DocText: fixedDocs[s.doc], Doc: mustParse(fixedDocs[s.doc]), Ops: []ref.Op{s.op}, OpTexts: []string{s.text}}
				c01Run(c, sc, V5Opts{NegIdx: s.neg, EscapeHTML: true})
			}},
			{Name: "random-sequences", Count: func(t core.Tier) int {
				if t == core.Thorough {
					return 2000000
				}
				return 60000
			}, Run: func(c *core.Ctx, idx int) {
				o := V5Opts{NegIdx: c.R.Intn(2) == 0, EscapeHTML: c.R.Intn(2) == 0}
				cfg := *seqCfg
				if c.Tier == core.Thorough && idx%4 == 0 {
					cfg.MaxOps = 40
				}
				c01Run(c, GenSeq(c.R, &cfg, o.Ref()), o)
			}},
			{Name: "names-that-differ-by-case-folding-or-normalisation", Count: func(t core.Tier) int {
				if t == core.Thorough {
					return 400000
				}
				return 15000
			}, Run: func(c *core.Ctx, idx int) {
				// members whose names a careless comparison takes for the same name (gen.NearMissKeys); absent members
				// addressed by near-miss pointers are then names of this kind
				o := V5Opts{NegIdx: c.R.Intn(2) == 0, EscapeHTML: c.R.Intn(2) == 0}
				cfg := *seqCfg
				cfg.Prof = seqCfg.Prof.With(func(p *gen.Profile) { p.Keys = gen.NearMissKeys })
				cfg.MissRate = 30
				cfg.NearNames = true
				c01Run(c, GenSeq(c.R, &cfg, o.Ref()), o)
				c.Count("near-miss-names:cases")
			}},
			{Name: "relocation-chains", Count: func(t core.Tier) int {
				if t == core.Thorough {
					return 400000
				}
				return 16000
			}, Run: func(c *core.Ctx, idx int) {
				// copied / moved / added values are copied and moved again, into and out of each other
				o := V5Opts{NegIdx: true, EscapeHTML: c.R.Intn(2) == 0}
				prof := seqCfg.Prof.With(func(p *gen.Profile) { p.ScalarBias = 25 })
				sc := GenMotionSeq(c.R, prof, o.Ref(), 10, true)
				c.CountN("relocation-chains:ops", int64(len(sc.Ops)))
				c01Run(c, sc, o)
			}},
			{Name: "copy-isolation", Count: func(t core.Tier) int {
				if t == core.Thorough {
					return 200000
				}
				return 8000
			}, Run: func(c *core.Ctx, idx int) {
				// copy, then edit the source and the destination: neither edit may show in the other
				o := V5Opts{NegIdx: true, EscapeHTML: true}
				cfg := *seqCfg
				cfg.MissRate = 0
				sc := &SeqCase{Opts: o.Ref()}
				sc.DocText = cfg.Prof.Root(c.R)
				sc.Doc = mustParse(sc.DocText)
				e := ref.New(sc.Doc, o.Ref())
				step := func(kinds ...string) {
					cfg.Kinds = kinds
					op, text := GenOp(c.R, e, &cfg)
					sc.Ops = append(sc.Ops, op)
					sc.OpTexts = append(sc.OpTexts, text)
					snap := e.Root.Clone()
					if e.Step(op) != ref.OK {
						e.Root = snap
					}
				}
				for i := c.R.Intn(3); i > 0; i-- {
					step(allKinds...)
				}
				step("copy")
				for i := 1 + c.R.Intn(5); i > 0; i-- {
					step("add", "replace", "remove", "add", "replace", "move", "test")
				}
				c01Run(c, sc, o)
			}},
			{Name: "null-then-test", Count: func(t core.Tier) int {
				if t == core.Thorough {
					return 100000
				}
				return 5000
			}, Run: func(c *core.Ctx, idx int) {
				// add/replace of null, then test null at the same and at enclosing locations
				o := V5Opts{NegIdx: c.R.Intn(2) == 0, EscapeHTML: true}
				cfg := *seqCfg
				cfg.MissRate = 5
				sc := &SeqCase{Opts: o.Ref()}
				sc.DocText = cfg.Prof.Root(c.R)
				sc.Doc = mustParse(sc.DocText)
				e := ref.New(sc.Doc, o.Ref())
				res, _ := gen.Pointers(e.Root)
				p := res[c.R.Intn(len(res))]
				kind := "replace"
				if p == "" || c.R.Intn(2) == 0 {
					kind = "add"
					if parent := valueAt(e, p); parent != nil && parent.K == jr.Obj {
						p += "/newnull"
					} else if parent != nil && parent.K == jr.Arr {
						p += "/-"
					} else if p == "" {
						p = "/zz"
					}
				}
				op := ref.Op{Kind: kind, Path: p, Value: mustParse("null"), HasValue: true}
				sc.Ops = append(sc.Ops, op)
				sc.OpTexts = append(sc.OpTexts, OpText(kind, p, "", "null", true))
				if e.Step(op) == ref.OK {
					// test at the location itself and at every enclosing location
					res2, _ := gen.Pointers(e.Root)
					for i := 0; i < 3; i++ {
						tp := res2[c.R.Intn(len(res2))]
						cur := valueAt(e, tp)
						if cur == nil {
							continue
						}
						vt := cfg.Prof.Respell(c.R, cur, true)
						top := ref.Op{Kind: "test", Path: tp, Value: mustParse(vt), HasValue: true}
						sc.Ops = append(sc.Ops, top)
						sc.OpTexts = append(sc.OpTexts, OpText("test", tp, "", vt, true))
						e.Step(top)
					}
				}
				c01Run(c, sc, o)
			}},
			{Name: "move-equals-remove-add", Count: func(t core.Tier) int {
				if t == core.Thorough {
					return 100000
				}
				return 5000
			}, Run: func(c *core.Ctx, idx int) {
				// metamorphic: the library against itself
				o := V5Opts{NegIdx: c.R.Intn(2) == 0, EscapeHTML: true}
				cfg := *seqCfg
				cfg.MissRate = 10
				cfg.Kinds = []string{"move"}
				docText := cfg.Prof.Root(c.R)
				doc := mustParse(docText)
				e := ref.New(doc, o.Ref())
				op, text := GenOp(c.R, e, &cfg)
				sc := &SeqCase{DocText: docText, Doc: doc, Ops: []ref.Op{op}, OpTexts: []string{text}}
				c01Run(c, sc, o)
				cur := valueAt(e, op.From)
				if cur == nil || op.From == "" {
					return
				}
				vt := cur.String()
				alt := PatchText([]string{OpText("remove", op.From, "", "", false), OpText("add", op.Path, "", vt, true)})
				r1 := ApplyV5(docText, text2patch(text), o, "")
				r2 := ApplyV5(docText, alt, o, "")
				c.Eval(2)
				if r1.Panic != nil || r2.Panic != nil {
					return // reported by c01Run
				}
				want := ref.Eval(doc, sc.Ops, o.Ref())
				if want.OutOfDom != "" {
					return
				}
				if (r1.Err == nil) != (r2.Err == nil) || (r1.Err == nil && !jr.Equal(mustParseOut(r1.Out), mustParseOut(r2.Out), jr.EqMode{})) {
					c.Violation("move-differs-from-remove-then-add", map[string]any{"doc": docText, "move": text, "remove_add": alt,
						"move_out": string(r1.Out), "move_err": errText(r1.Err), "remove_add_out": string(r2.Out), "remove_add_err": errText(r2.Err), "options": o.String()})
				}
			}},
			{Name: "root-replace-then-ops", Count: func(t core.Tier) int {
				if t == core.Thorough {
					return 100000
				}
				return 5000
			}, Run: func(c *core.Ctx, idx int) {
				o := V5Opts{NegIdx: c.R.Intn(2) == 0, EscapeHTML: true}
				cfg := *seqCfg
				sc := &SeqCase{Opts: o.Ref()}
				sc.DocText = cfg.Prof.Root(c.R)
				sc.Doc = mustParse(sc.DocText)
				e := ref.New(sc.Doc, o.Ref())
				vt := cfg.Prof.Root(c.R)
				kind := [...]string{"add", "replace"}[c.R.Intn(2)]
				op := ref.Op{Kind: kind, Path: "", Value: mustParse(vt), HasValue: true}
				sc.Ops = append(sc.Ops, op)
				sc.OpTexts = append(sc.OpTexts, OpText(kind, "", "", vt, true))
				e.Step(op)
				for i := 1 + c.R.Intn(5); i > 0; i-- {
					op, text := GenOp(c.R, e, &cfg)
					sc.Ops = append(sc.Ops, op)
					sc.OpTexts = append(sc.OpTexts, text)
					if e.Step(op) != ref.OK {
						break
					}
				}
				c01Run(c, sc, o)
			}},
		},
	})
}

// Keys for C01/C05/C08/C13: the empty name is drawn rarely because an empty
// reference token puts the case outside the comparing domain.
var c01Keys = []string{"a", "b", "c", "d", "a/b", "m~n", "~", "~1", "/", "~0", "100%", "\x01\x7f", "\v", "sensor_reading_01_celsius", "sensor_reading_02_celsius", "0", "1", "-1", "01", "x<y", "k&v", " ", "é", "😀", `q"r`, `b\s`, "\n", "-", "e", "f"}

func text2patch(op string) string { return "[" + op + "]" }

func mustParseOut(b []byte) *jr.Value {
	v, err := jr.Parse(b)
	if err != nil {
		return &jr.Value{K: jr.Str, S: "<<unparsable output>> " + string(b)}
	}
	return v
}
