package props

import (
	"bytes"
	"fmt"
	"os"
	"os/exec"
	"path/filepath"
	"strings"
	"syscall"
	"time"

	jpl "github.com/evanphx/json-patch"
	jp "github.com/evanphx/json-patch/v5"
	"github.com/evanphx/json-patch/v5/verifharness/core"
	"github.com/evanphx/json-patch/v5/verifharness/gen"
	jr "github.com/evanphx/json-patch/v5/verifharness/jsonref"
	"github.com/evanphx/json-patch/v5/verifharness/mon"
	ref "github.com/evanphx/json-patch/v5/verifharness/ref6902"
)

type cliFile struct {
	kind    string // valid | failing | malformed | wrong-shape | empty | missing | directory
	content string
}

type cliRun struct {
	status int
	stdout []byte
	stderr []byte
	err    string
}

// cliStdinPieces > 1: runCLI writes the document to the command's standard input in that many pieces.
var cliStdinPieces int

func runCLI(bin string, args []string, stdin []byte, wrap []string) cliRun {
	var r cliRun
	argv := append(append([]string{}, wrap...), bin)
	argv = append(argv, args...)
	cmd := exec.Command(argv[0], argv[1:]...)
	var feed func()
	if cliStdinPieces > 1 && len(stdin) >= cliStdinPieces {
		// the document arrives on a pipe in several writes with pauses between them (a producer that is slower
		// than the command): every read returns less than was asked for, and the last piece comes late
		if w, err := cmd.StdinPipe(); err == nil {
			pieces := cliStdinPieces
			feed = func() {
				n := len(stdin) / pieces
				for i := 0; i < pieces; i++ {
					end := (i + 1) * n
					if i == pieces-1 {
						end = len(stdin)
					}
					w.Write(stdin[i*n : end])
					time.Sleep(40 * time.Millisecond)
				}
				w.Close()
			}
		}
	}
	if feed == nil {
		cmd.Stdin = bytes.NewReader(stdin)
	}
	var so, se bytes.Buffer
	cmd.Stdout, cmd.Stderr = &so, &se
	done := make(chan error, 1)
	if err := cmd.Start(); err != nil {
		r.err = err.Error()
		r.status = -1
		return r
	}
	if feed != nil {
		go feed()
	}
	go func() { done <- cmd.Wait() }()
	select {
	case err := <-done:
		if err != nil {
			if ee, ok := err.(*exec.ExitError); ok {
				r.status = ee.ExitCode()
				if ws, ok := ee.Sys().(syscall.WaitStatus); ok && ws.Signaled() {
					r.err = "killed by " + ws.Signal().String()
				}
			} else {
				r.status, r.err = -1, err.Error()
			}
		}
	case <-time.After(100 * time.Second):
		cmd.Process.Kill()
		<-done
		r.status, r.err = -1, "watchdog: command did not finish within 100 s"
	}
	r.stdout, r.stderr = so.Bytes(), se.Bytes()
	return r
}

// foldLibrary is the oracle: decode every file in order, then apply in order, with the library itself.
func foldLibrary(legacy bool, doc []byte, files []cliFile) (out []byte, ok bool, pn *mon.Panic) {
	pn = mon.Try(func() {
		cur := doc
		if legacy {
			var ps []jpl.Patch
			for _, f := range files {
				if f.kind == "missing" || f.kind == "directory" {
					return
				}
				p, err := jpl.DecodePatch([]byte(f.content))
				if err != nil {
					return
				}
				ps = append(ps, p)
			}
			for _, p := range ps {
				var err error
				cur, err = p.Apply(cur)
				if err != nil {
					return
				}
			}
		} else {
			var ps []jp.Patch
			for _, f := range files {
				if f.kind == "missing" || f.kind == "directory" {
					return
				}
				p, err := jp.DecodePatch([]byte(f.content))
				if err != nil {
					return
				}
				ps = append(ps, p)
			}
			for _, p := range ps {
				var err error
				cur, err = p.Apply(cur)
				if err != nil {
					return
				}
			}
		}
		out, ok = cur, true
	})
	return
}

func judgeCLI(c *core.Ctx, legacy bool, doc string, files []cliFile, inject int) {
	bin := c.Env["CLI5"]
	pkg := "v5"
	if legacy {
		bin, pkg = c.Env["CLILEGACY"], "legacy"
	}
	if _, err := os.Stat(bin); err != nil {
		c.Inconclusive("command binary not built: " + bin)
		return
	}
	dir, err := os.MkdirTemp(c.Dir, "cli")
	if err != nil {
		c.Inconclusive("cannot create scratch directory: " + err.Error())
		return
	}
	defer os.RemoveAll(dir)
	var args []string
	var desc []map[string]any
	injectPath := ""
	sameName := len(files) >= 2 && len(doc)%3 == 0
	for i, f := range files {
		path := filepath.Join(dir, fmt.Sprintf("p%d.json", i))
		if sameName {
			// different files that share their base name (base/patch.json, overlay/patch.json, ...)
			sub := filepath.Join(dir, fmt.Sprintf("d%d", i))
			os.Mkdir(sub, 0o755)
			path = filepath.Join(sub, "patch.json")
		}
		switch f.kind {
		case "missing":
		case "directory":
			os.Mkdir(path, 0o755)
		default:
			os.WriteFile(path, []byte(f.content), 0o644)
		}
		if i == inject {
			injectPath = path
		}
		flag := "-p"
		if c.R.Intn(4) == 0 {
			flag = "--patch-file"
		}
		if c.R.Intn(6) == 0 {
			args = append(args, flag+"="+path)
			if flag == "-p" {
				args[len(args)-1] = "-p" + path
			}
		} else {
			args = append(args, flag, path)
		}
		desc = append(desc, map[string]any{"kind": f.kind, "content": clip(f.content, 600)})
	}
	var wrap []string
	if injectPath != "" {
		st := c.Env["STRACE"]
		if st == "" {
			c.Count("strace-unavailable")
			return
		}
		wrap = []string{st, "-f", "-o", "/dev/null", "-P", injectPath, "-e", "trace=read", "-e", "inject=read:error=EIO:when=1"}
	}
	run := runCLI(bin, args, []byte(doc), wrap)
	want, ok, pn := foldLibrary(legacy, []byte(doc), files)
	if inject >= 0 && inject < len(files) && injectPath != "" {
		ok = false // the file cannot be read
	}
	c.Eval(1)
	d := map[string]any{"command": pkg, "stdin": clip(doc, 1200), "patch_files": desc, "exit_status": run.status, "stdout": clip(string(run.stdout), 1200), "stderr": clip(string(run.stderr), 600), "exec_error": run.err,
		"library_fold_succeeds": ok, "library_fold_output": clip(string(want), 1200), "read_error_injected_into_file": inject}
	if pn != nil {
		c.Count("library-panics:not-compared")
		return
	}
	if run.err != "" && strings.HasPrefix(run.err, "watchdog") {
		c.Inconclusive("command timed out: " + fmt.Sprint(args))
		return
	}
	kinds := ""
	for _, f := range files {
		kinds += f.kind + ","
	}
	if ok {
		c.Count("expect:success")
		switch {
		case run.status != 0:
			c.Violation(pkg+":exit-status-nonzero-although-every-patch-applies", d)
		case !bytes.Equal(run.stdout, want):
			c.Violation(pkg+":stdout-differs-from-applying-the-patches-in-order", d)
		default:
			c.Count("agree:success")
			if len(files) >= 2 {
				c.Count("agree:success:>=2-files")
			}
		}
	} else {
		c.Count("expect:failure")
		c.Count("failure-kinds:" + kinds)
		switch {
		case run.status == 0:
			c.Violation(pkg+":exit-status-0-although-a-step-fails", d)
		case len(run.stdout) != 0:
			c.Violation(pkg+":document-written-to-stdout-although-a-step-fails", d)
		case len(run.stderr) == 0:
			c.Violation(pkg+":nothing-on-stderr-although-a-step-fails", d)
		default:
			c.Count("agree:failure")
			if injectPath != "" {
				c.Count("agree:failure:read-error-injected")
			}
		}
	}
	c.Nontrivial(pkg, doc, fmt.Sprint(desc), fmt.Sprint(inject))
	if c.WantSample() {
		c.Sample(d)
	}
}

// genCLICase: a document and a list of patch files; valid patches are
// generated against the state the previous ones produce, so that order matters.
func genCLICase(c *core.Ctx, legacy bool) (string, []cliFile) {
	// '%' in names and strings: the result must reach stdout verbatim, not through a format string
	prof := gen.Hostile().With(func(p *gen.Profile) {
		p.Keys = append(append([]string{}, c01Keys...), "100%", "%s")
		p.Strings = append(append([]string{}, gen.HostileStrings...), "50%", "a%sb%d", "%!v(MISSING)", "%%", "%")
	})
	o := ref.Opts{NegIdx: true}
	if legacy {
		prof = gen.Plain().With(func(p *gen.Profile) {
			p.Keys = append(append([]string{}, legacyKeys...), "100%")
			p.Strings = append(append([]string{}, gen.PlainStrings...), "50%", "a%sb%d", "%")
		})
		o.Legacy = true
	}
	doc := prof.Root(c.R)
	if c.R.Intn(40) == 0 {
		// a large document
		var sb strings.Builder
		sb.WriteString(`{"big":[`)
		for i := 0; i < 20000; i++ {
			if i > 0 {
				sb.WriteByte(',')
			}
			sb.WriteString(`{"i":` + fmt.Sprint(i) + `,"s":"xxxxxxxxxxxxxxxxxxxxxxxxxxxxxxxx"}`)
		}
		sb.WriteString(`],"doc":` + doc + `}`)
		doc = sb.String()
	}
	if c.R.Intn(50) == 0 {
		doc = gen.Mutate(c.R, doc, "")
	}
	e := ref.New(mustParse(`{}`), o)
	if v, err := jr.Parse([]byte(doc)); err == nil && (v.K == jr.Obj || v.K == jr.Arr) {
		e = ref.New(v, o)
	}
	n := c.R.Intn(5)
	var files []cliFile
	for i := 0; i < n; i++ {
		switch k := c.R.Intn(20); {
		case k == 0:
			files = append(files, cliFile{"malformed", gen.Mutate(c.R, `[{"op":"add","path":"/a","value":1}]`, doc)})
		case k == 1:
			files = append(files, cliFile{"wrong-shape", []string{`{"op":"add","path":"/a","value":1}`, `[{"op":"bogus","path":"/a"}]`, `[{"op":"add","path":"/a"}]`, `7`, `[null]`}[c.R.Intn(5)]})
		case k == 2:
			files = append(files, cliFile{"empty", ""})
		case k == 3:
			files = append(files, cliFile{"missing", ""})
		case k == 4:
			files = append(files, cliFile{"directory", ""})
		case k == 8 || k == 9:
			// operations whose outcome depends on the document being re-read between files: the empty
			// reference token "/" is resolved against the text that very Apply call was given, and a
			// root replaced by null / a scalar cannot be patched any further
			files = append(files, cliFile{"odd", []string{
				`[{"op":"copy","from":"/","path":"/cp"}]`,
				`[{"op":"test","path":"/","value":{}}]`,
				`[{"op":"test","path":"/","value":` + doc + `}]`,
				`[{"op":"replace","path":"","value":null}]`,
				`[{"op":"add","path":"","value":[]}]`,
				`[{"op":"add","path":"/-","value":7}]`,
				`[{"op":"add","path":"/first","value":1},{"op":"copy","from":"/","path":"/snapshot"}]`,
				`[{"op":"move","from":"/","path":"/mv"}]`,
			}[c.R.Intn(8)]})
		case k == 10:
			// a well-formed patch followed by something: closing brackets nobody opened, a second value, a stray
			// comma - the file as a whole is not a JSON text
			base := []string{`[]`, `[{"op":"add","path":"/zz","value":1}]`, `[{"op":"test","path":"","value":` + doc + `}]`}[c.R.Intn(3)]
			junk := []string{"]", "}", "]]", "} x", " ]garbage", ",", "[]", " {}", "\n1", "\n]\n", "}{", "\x00"}[c.R.Intn(12)]
			files = append(files, cliFile{"malformed", base + junk})
		case k == 11:
			// a well-formed patch preceded by something an editor, a shell or a template leaves in front of a file: a
			// byte order mark, a comment, an XSSI guard, white space that is not JSON white space - not a JSON text
			base := []string{`[]`, `[{"op":"add","path":"/zz","value":1}]`, `[{"op":"test","path":"","value":` + doc + `}]`}[c.R.Intn(3)]
			junk := []string{"\xef\xbb\xbf", "\xff\xfe", "\xfe\xff", "\x00", "\v", "\f", "\xc2\xa0", "\xe2\x80\xa8", "// patch\n", "# patch\n", ")]}'\n", "\xef\xbb\xbf\n", "\x1e", "---\n", "\x08"}[c.R.Intn(15)]
			files = append(files, cliFile{"malformed", junk + base})
		case k == 7:
			// a patch without operations: still validates and re-encodes the document
			files = append(files, cliFile{"valid", []string{"[]", "[ ]", " []\n", "[\n]"}[c.R.Intn(4)]})
		default:
			cfg := &SeqCfg{Prof: prof, MinOps: 1, MaxOps: 4, MissRate: 0, RootOK: !legacy, PlainTest: legacy}
			kind := "valid"
			if k == 5 || k == 6 {
				cfg.MissRate = 70
				kind = "failing"
			}
			var texts []string
			for j := 1 + c.R.Intn(4); j > 0; j-- {
				op, text := GenOp(c.R, e, cfg)
				texts = append(texts, text)
				snap := e.Root.Clone()
				if e.Step(op) != ref.OK {
					e.Root = snap
					if kind == "failing" {
						break
					}
				}
			}
			files = append(files, cliFile{kind, PatchText(texts)})
		}
	}
	switch c.R.Intn(6) {
	case 0: // another order of the same files
		c.R.Shuffle(len(files), func(i, j int) { files[i], files[j] = files[j], files[i] })
	case 1: // a repeated file
		if len(files) > 0 {
			files = append(files, files[c.R.Intn(len(files))])
		}
	}
	return doc, files
}

func init() {
	n := func(q, t int) func(core.Tier) int {
		return func(tier core.Tier) int {
			if tier == core.Thorough {
				return t
			}
			return q
		}
	}
	core.Register(&core.Prop{
		ID:    "C20",
		Title: "The json-patch command applies its patch files in order, or fails cleanly",
		Rule: "The json-patch binaries (v5 and legacy), built from the working tree without hooks, are run as child processes: document on stdin, 0-4 patch files given with -p / --patch-file in command-line order, drawn from {valid and applicable (generated against the state the previous files produce, so order matters), valid but failing at some operation, malformed JSON, wrong shape, empty file, missing file, a directory}, shuffled orders and repeated files, some 1 MiB documents. " +
			"Oracle: folding DecodePatch+Apply over the files with the library in-process (same build). Success: exit 0 and stdout byte-identical; any failing step: exit != 0, empty stdout, non-empty stderr. strace-injected EIO on the first read of a patch file covers 'cannot be read'. non-trivial = every run; distinct = distinct (command, stdin, files, injection).",
		Assumptions: []string{"the library in the harness process and the one in the binary are built from the same working tree", "read errors are injected with strace -e inject (root ignores file modes)"},
		Floors: func(t core.Tier, m *core.Merged) []string {
			var out []string
			if m.Counts["agree:success"] < 300 || m.Counts["agree:failure"] < 300 || m.Counts["agree:success:>=2-files"] < 100 {
				out = append(out, "too few successful / failing / multi-file runs compared")
			}
			if m.Counts["agree:failure:read-error-injected"] < 5 && m.Counts["strace-unavailable"] == 0 {
				out = append(out, "read-error injection observed fewer than 5 times")
			}
			return out
		},
		Families: []core.Family{
			{Name: "v5-command", Count: n(3000, 40000), Run: func(c *core.Ctx, idx int) {
				doc, files := genCLICase(c, false)
				judgeCLI(c, false, doc, files, -1)
			}},
			{Name: "legacy-command", Count: n(1200, 15000), Run: func(c *core.Ctx, idx int) {
				doc, files := genCLICase(c, true)
				judgeCLI(c, true, doc, files, -1)
			}},
			{Name: "empty-patches-and-odd-stdin", Count: n(600, 8000), Run: func(c *core.Ctx, idx int) {
				// 0-3 patch files without operations, and a stdin that is ill-formed, not compact, a scalar, null,
				// empty, or holds '%': the command must do exactly what folding Apply over the files does
				legacy := idx%3 == 0
				hp := gen.Hostile().With(func(p *gen.Profile) {
					p.WS = 40
					p.Strings = append(append([]string{}, gen.HostileStrings...), "50%", "%d")
				})
				var doc string
				switch c.R.Intn(8) {
				case 0:
					doc = gen.Mutate(c.R, hp.Root(c.R), "")
				case 1:
					doc = []string{"", " ", "\n", "null", "7", `"50%"`, "this is not json", `{"a": 1,}`, `{"a":1} {"a":1}`, "[1,2", "\xff"}[c.R.Intn(11)]
				case 2:
					doc = hp.Root(c.R) + "\n"
				case 3:
					doc = " \r\n" + hp.Root(c.R)
				default:
					doc = hp.Root(c.R)
				}
				var files []cliFile
				for k := c.R.Intn(4); k > 0; k-- {
					files = append(files, cliFile{"valid", []string{"[]", "[ ]", " []\n", "[\n]"}[c.R.Intn(4)]})
				}
				judgeCLI(c, legacy, doc, files, -1)
				c.Count("empty-patch-runs")
			}},
			{Name: "stdin-arriving-in-pieces", Count: n(120, 1500), Run: func(c *core.Ctx, idx int) {
				legacy := idx%2 == 0
				doc, files := genCLICase(c, legacy)
				cliStdinPieces = 2 + c.R.Intn(3)
				defer func() { cliStdinPieces = 0 }()
				judgeCLI(c, legacy, doc, files, -1)
				c.Count("stdin-in-pieces-runs")
			}},
			{Name: "many-patch-files", Exhaustive: true, Count: func(core.Tier) int { return 2 * 4 * 4 }, Run: func(c *core.Ctx, idx int) {
				// hundreds of -p options (an exit status has eight bits; argument lists and loops have their own bounds);
				// the one bad file, if any, stands at a position around a multiple of 256
				legacy := idx%2 == 0
				idx /= 2
				total := []int{255, 256, 257, 513}[idx%4]
				idx /= 4
				bad := []int{-1, 255, 256, 512}[idx%4] // 1-based position of the failing file
				if bad > total {
					bad = total
				}
				doc := `{"n":[],"k":"v"}`
				var files []cliFile
				for i := 1; i <= total; i++ {
					switch {
					case i == bad && i%2 == 0:
						files = append(files, cliFile{"failing", `[{"op":"test","path":"/k","value":"other"}]`})
					case i == bad:
						files = append(files, cliFile{"malformed", `[{"op":"add","path":"/x","value":1}`})
					case i%64 == 0:
						files = append(files, cliFile{"valid", fmt.Sprintf(`[{"op":"add","path":"/n/-","value":%d}]`, i)})
					default:
						files = append(files, cliFile{"valid", `[]`})
					}
				}
				judgeCLI(c, legacy, doc, files, -1)
				c.Count("many-files-runs")
			}},
			{Name: "order-permutations", Count: n(600, 8000), Run: func(c *core.Ctx, idx int) {
				// three valid patches, every order; different orders must give what the library gives for that order
				legacy := idx%4 == 0
				var doc string
				var files []cliFile
				for try := 0; try < 20; try++ {
					doc, files = genCLICase(c, legacy)
					ok := len(files) >= 2
					for _, f := range files {
						if f.kind != "valid" {
							ok = false
						}
					}
					if ok {
						break
					}
					files = nil
				}
				if len(files) < 2 {
					return
				}
				perm := c.R.Perm(len(files))
				var pf []cliFile
				for _, i := range perm {
					pf = append(pf, files[i])
				}
				judgeCLI(c, legacy, doc, files, -1)
				judgeCLI(c, legacy, doc, pf, -1)
				c.Count("permutations-run")
			}},
			{Name: "unreadable-patch-file", Count: n(48, 400), Run: func(c *core.Ctx, idx int) {
				legacy := idx%3 == 0
				doc, files := genCLICase(c, legacy)
				var regular []int
				for i, f := range files {
					if f.kind != "missing" && f.kind != "directory" {
						regular = append(regular, i)
					}
				}
				if len(regular) == 0 {
					files = append(files, cliFile{"valid", `[]`})
					regular = []int{len(files) - 1}
				}
				// the same path must not occur twice (strace -P counts reads per path)
				judgeCLI(c, legacy, doc, files, regular[c.R.Intn(len(regular))])
			}},
		},
	})
}
