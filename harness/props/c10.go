package props

import (
	"bytes"
	stdjson "encoding/json"
	"fmt"
	"os"
	"os/exec"
	"reflect"
	"runtime"
	"runtime/debug"
	"sync"
	"sync/atomic"
	"time"

	ij "github.com/evanphx/json-patch/v5/internal/json"
	"github.com/evanphx/json-patch/v5/verifharness/core"
	"github.com/evanphx/json-patch/v5/verifharness/mon"
)

func init() { raceProps["C10"] = true }

// yield hook: seeded schedule perturbation at the only places where
// goroutines meet inside the library (pool acquisition, type caches).
var yieldCtr atomic.Uint64
var yieldSeed atomic.Uint64
var yieldOn atomic.Bool

func installYield() {
	ij.VerifYield = func(site int) {
		if !yieldOn.Load() {
			return
		}
		x := yieldCtr.Add(1)*0x9e3779b97f4a7c15 ^ yieldSeed.Load()
		x ^= x >> 29
		x *= 0xbf58476d1ce4e5b9
		x ^= x >> 32
		switch {
		case x%3 == 0:
			runtime.Gosched()
		case x%41 == 1:
			time.Sleep(time.Duration(x%50) * time.Microsecond)
		}
	}
}

type roundResult struct {
	Mismatch string
	Calls    int
	Sig      uint64
	InFlight int64
}

// runRound releases g goroutines by a barrier; each runs its own sequence of
// calls of the pool; every result is compared with the alone result.
func runRound(p *CallPool, alone []CallResult, plans [][]int, seed uint64) roundResult {
	var rr roundResult
	ij.VerifPool.MaxInFlight.Store(0)
	yieldSeed.Store(seed)
	var ticket atomic.Uint64
	events := make([]uint32, 0, 4096)
	var evMu sync.Mutex
	var mis atomic.Value
	start := make(chan struct{})
	var wg sync.WaitGroup
	for slot, plan := range plans {
		wg.Add(1)
		go func(slot int, plan []int) {
			defer wg.Done()
			mon.EnableFaultPanics()
			<-start
			local := make([]uint32, 0, 2*len(plan))
			for _, ci := range plan {
				t0 := ticket.Add(1)
				got := p.Run(p.Calls[ci], nil)
				t1 := ticket.Add(1)
				local = append(local, uint32(t0)<<8|uint32(slot&0x7f)<<1, uint32(t1)<<8|uint32(slot&0x7f)<<1|1)
				if why := SameResult(p.Calls[ci].API, got, alone[ci]); why != "" && mis.Load() == nil {
					mis.Store(fmt.Sprintf("goroutine %d, call #%d %s/%s: %s\n  concurrent: %+v\n  alone:      %+v", slot, ci, p.Calls[ci].API, p.Calls[ci].Class, why, got, alone[ci]))
				}
			}
			evMu.Lock()
			events = append(events, local...)
			evMu.Unlock()
		}(slot, plan)
		rr.Calls += len(plan)
	}
	close(start)
	wg.Wait()
	if m := mis.Load(); m != nil {
		rr.Mismatch = m.(string)
	}
	// interleaving signature: the global order of (slot, begin/end) events
	order := make([]uint32, len(events))
	copy(order, events)
	sortU32(order)
	h := uint64(1469598103934665603)
	for _, e := range order {
		h = (h ^ uint64(e&0xff)) * 1099511628211
	}
	rr.Sig = h
	rr.InFlight = ij.VerifPool.MaxInFlight.Load()
	return rr
}

func sortU32(a []uint32) {
	if len(a) < 2 {
		return
	}
	// simple radix-free sort: events are few thousand per round
	quick32(a)
}

func quick32(a []uint32) {
	for len(a) > 12 {
		p := a[len(a)/2]
		i, j := 0, len(a)-1
		for i <= j {
			for a[i] < p {
				i++
			}
			for a[j] > p {
				j--
			}
			if i <= j {
				a[i], a[j] = a[j], a[i]
				i++
				j--
			}
		}
		if j+1 < len(a)-i {
			quick32(a[:j+1])
			a = a[i:]
		} else {
			quick32(a[i:])
			a = a[:j+1]
		}
	}
	for i := 1; i < len(a); i++ {
		for j := i; j > 0 && a[j] < a[j-1]; j-- {
			a[j], a[j-1] = a[j-1], a[j]
		}
	}
}

var sigSeen = map[uint64]bool{}

func concRound(c *core.Ctx, g, maxCalls int, sharedOnly bool) {
	if hist.err != "" {
		c.Inconclusive(hist.err)
		return
	}
	reportAliasing(c)
	p := hist.pool
	plans := make([][]int, g)
	hot := c.R.Intn(len(p.Calls))
	for i := range plans {
		n := 1 + c.R.Intn(maxCalls)
		plans[i] = make([]int, n)
		for j := range plans[i] {
			switch {
			case sharedOnly:
				plans[i][j] = hot // all goroutines: the same Patch on the same document
			case c.R.Intn(4) == 0:
				plans[i][j] = hot
			default:
				plans[i][j] = c.R.Intn(len(p.Calls))
			}
		}
	}
	rr := runRound(p, hist.alone, plans, c.R.Uint64())
	c.Eval(rr.Calls)
	c.Count("rounds")
	c.CountN("concurrent-calls", int64(rr.Calls))
	if rr.InFlight >= 2 {
		c.Count("rounds-with>=2-pooled-states-in-flight")
	}
	if !sigSeen[rr.Sig] {
		sigSeen[rr.Sig] = true
		c.Count("distinct-interleaving-signatures")
	}
	c.Count(fmt.Sprintf("goroutines=%d", g))
	c.Count(fmt.Sprintf("gomaxprocs=%d", runtime.GOMAXPROCS(0)))
	if rr.Mismatch != "" {
		c.Violation("concurrent-result-differs-from-alone", map[string]any{"goroutines": g, "gomaxprocs": runtime.GOMAXPROCS(0), "pool_mode": c.Mode, "mismatch": rr.Mismatch})
		return
	}
	if why := p.CheckPatches(); why != "" {
		c.Violation("shared-Patch-modified-under-concurrency", map[string]any{"why": why})
		return
	}
	if n := ij.VerifPool.InFlight.Load(); n != 0 {
		c.Violation("pooled-states-in-flight-at-barrier", map[string]any{"in_flight": n})
		return
	}
	for _, e := range ij.VerifPoolErrors() {
		c.Violation("pool-ownership:"+firstLine(e), map[string]any{"error": e})
		return
	}
	c.Nontrivial(fmt.Sprint(c.Worker%4), fmt.Sprint(plans))
	if c.WantSample() {
		c.Sample(map[string]any{"goroutines": g, "calls": rr.Calls, "gomaxprocs": runtime.GOMAXPROCS(0), "max_pooled_states_in_flight": rr.InFlight, "interleaving_signature": fmt.Sprintf("%016x", rr.Sig), "first_plan": describePlan(p, plans[0])})
	}
}

func describePlan(p *CallPool, plan []int) []string {
	var s []string
	for i, ci := range plan {
		if i >= 8 {
			break
		}
		s = append(s, p.Calls[ci].API+"/"+p.Calls[ci].Class)
	}
	return s
}

// codecRound: all goroutines marshal/unmarshal values of a struct type that
// no goroutine has seen before (type caches are filled under contention).
func codecRound(c *core.Ctx, g int) {
	var t reflect.Type
	if pn := mon.Try(func() { t = genStructType(c.R, 2) }); pn != nil || t == nil {
		return
	}
	text := []byte(genTextFor(c.R, t, 3))
	sv := reflect.New(t)
	serr := stdUnmarshalNumber(text, sv.Interface())
	var sb []byte
	if serr == nil {
		v2 := reflect.New(t)
		stdjson.Unmarshal(text, v2.Interface())
		sb, _ = stdjson.Marshal(v2.Interface())
	}
	start := make(chan struct{})
	var wg sync.WaitGroup
	var mis atomic.Value
	for i := 0; i < g; i++ {
		wg.Add(1)
		go func(i int) {
			defer wg.Done()
			<-start
			pn := mon.Try(func() {
				fv := reflect.New(t)
				ferr := ij.Unmarshal(text, fv.Interface())
				if (ferr == nil) != (serr == nil) {
					mis.Store(fmt.Sprintf("Unmarshal error presence differs under contention: fork=%v std=%v", ferr, serr))
					return
				}
				if serr == nil {
					v2 := reflect.New(t)
					stdjson.Unmarshal(text, v2.Interface())
					fb, merr := ij.Marshal(v2.Interface())
					if merr != nil || normBytes(fb) != normBytes(sb) {
						mis.Store(fmt.Sprintf("Marshal differs under contention: fork=%s (%v) std=%s", fb, merr, sb))
					}
				}
			})
			if pn != nil {
				mis.Store("panic under contention: " + pn.Value + "\n" + pn.Stack)
			}
		}(i)
	}
	close(start)
	wg.Wait()
	c.Eval(g)
	c.Count("codec-rounds")
	if m := mis.Load(); m != nil {
		c.Violation("codec-under-contention", map[string]any{"type": clip(t.String(), 600), "text": clip(string(text), 600), "mismatch": m})
	}
}

// RunStampede is the body of `jpverif stampede <seed> <pool> <idx> <mode>`: a
// fresh process in which all goroutines' first calls hit the library together.
func RunStampede(seed int64, id, idx int, mode string) int {
	switch mode {
	case "poison":
		ij.VerifPoolMode.Store(ij.VerifModePoison)
	case "fresh":
		ij.VerifPoolMode.Store(ij.VerifModeFresh)
	}
	installYield()
	yieldOn.Store(idx%2 == 0)
	p := BuildPool(seed, id)
	if err := p.Open(); err != nil {
		fmt.Fprintln(os.Stderr, err)
		return 2
	}
	r := core.NewRand(seed, "C10", "stampede-child", idx)
	g := []int{8, 32, 64}[r.Intn(3)]
	plans := make([][]int, g)
	for i := range plans {
		plans[i] = []int{r.Intn(len(p.Calls)), r.Intn(len(p.Calls))}
	}
	// results are returned to the parent, which knows the alone results
	out := make([][]CallResult, g)
	start := make(chan struct{})
	var wg sync.WaitGroup
	for i := range plans {
		wg.Add(1)
		go func(i int) {
			defer wg.Done()
			mon.EnableFaultPanics()
			<-start
			for _, ci := range plans[i] {
				out[i] = append(out[i], p.Run(p.Calls[ci], nil))
			}
		}(i)
	}
	close(start)
	wg.Wait()
	rep := map[string]any{"plans": plans, "results": out, "pool_errors": ij.VerifPoolErrors(), "in_flight": ij.VerifPool.InFlight.Load(), "max_in_flight": ij.VerifPool.MaxInFlight.Load(), "patches": p.CheckPatches()}
	b, _ := stdjson.Marshal(rep)
	os.Stdout.Write(b)
	return 0
}

func init() {
	n := func(q, t, raceQ, raceT int) func(core.Tier) int {
		return func(tier core.Tier) int {
			switch {
			case core.RaceBuild && tier == core.Thorough:
				return raceT
			case core.RaceBuild:
				return raceQ
			case tier == core.Thorough:
				return t
			}
			return q
		}
	}
	procs := []int{1, 2, 4, 16}
	core.Register(&core.Prop{
		ID:    "C10",
		Title: "Safe for concurrent use, including a shared Patch",
		Rule: "Two builds of the same workload: with the Go race detector (reports read from the log, counted as DATA RACE blocks, de-duplicated by the pair of innermost library functions; a report with a library frame in either stack is a violation, one with harness frames only makes the run inconclusive) and without (more rounds). " +
			"Rounds: 2/8/32/64 goroutines released by a barrier, each running 1-50 calls of the C09 call pool - the same Patch on the same and on different documents, shared write-protected input slices, all entry points mixed, failing and malformed calls interleaved - with GOMAXPROCS in {1,2,4,16}, seeded yields/sleeps at the pool and type-cache hook points, GOGC=1 in part of the rounds, pool sanitizer off / poison / fresh; " +
			"every result must equal the result of the same call run alone in a fresh process; pool ownership (acquired while owned, released while unowned, in flight at a barrier) is checked; codec rounds marshal/unmarshal struct types generated at run time that no goroutine has seen; cold-start stampedes run in fresh child processes. " +
			"non-trivial = a round with >= 2 goroutines; distinct = distinct plan. Evidence reports goroutines, GOMAXPROCS values, pooled states in flight and the number of distinct interleaving signatures (global order of call begin/end events).",
		Assumptions: []string{"the race detector only reports races between accesses that both executed", "schedules are sampled, not enumerated", "writing the package variables SupportNegativeIndices / AccumulatedCopySizeLimit concurrently with calls is a caller error and not exercised"},
		Setup: func(c *core.Ctx) {
			histSetup(c)
			installYield()
			yieldOn.Store(true)
		},
		Finish: poolFinish,
		Floors: func(t core.Tier, m *core.Merged) []string {
			out := poolFloor(m)
			if m.Counts["rounds"] == 0 || m.Counts["rounds-with>=2-pooled-states-in-flight"]*10 < m.Counts["rounds"]*6 {
				out = append(out, fmt.Sprintf("pooled states of >= 2 goroutines in flight simultaneously in only %d of %d rounds", m.Counts["rounds-with>=2-pooled-states-in-flight"], m.Counts["rounds"]))
			}
			if m.Counts["distinct-interleaving-signatures"] < 100 {
				out = append(out, "fewer than 100 distinct interleaving signatures")
			}
			if m.Counts["stampedes"] < 10 || m.Counts["codec-rounds"] < 50 {
				out = append(out, "too few cold-start stampedes / codec rounds")
			}
			for _, g := range procs {
				if m.Counts[fmt.Sprintf("gomaxprocs=%d", g)] == 0 {
					out = append(out, fmt.Sprintf("GOMAXPROCS=%d never used", g))
				}
			}
			return out
		},
		Families: []core.Family{
			{Name: "rounds", Count: n(1600, 30000, 320, 4000), Run: func(c *core.Ctx, idx int) {
				old := runtime.GOMAXPROCS(procs[idx%4])
				defer runtime.GOMAXPROCS(old)
				if idx%8 == 7 {
					oldgc := debug.SetGCPercent(1)
					defer debug.SetGCPercent(oldgc)
					c.Count("rounds-with-GOGC=1")
				}
				yieldOn.Store(idx%3 != 0)
				g := []int{2, 8, 32, 64}[c.R.Intn(4)]
				mc := 50
				if g >= 32 {
					mc = 12
				}
				concRound(c, g, mc, false)
			}},
			{Name: "shared-patch-same-document", Count: n(640, 10000, 160, 1600), Run: func(c *core.Ctx, idx int) {
				old := runtime.GOMAXPROCS(procs[idx%4])
				defer runtime.GOMAXPROCS(old)
				concRound(c, []int{8, 32}[idx%2], 20, true)
			}},
			{Name: "codec-fresh-types", Count: n(320, 5000, 96, 800), Run: func(c *core.Ctx, idx int) {
				old := runtime.GOMAXPROCS(procs[idx%4])
				defer runtime.GOMAXPROCS(old)
				codecRound(c, []int{8, 32}[idx%2])
			}},
			{Name: "cold-start-stampedes", Count: n(48, 480, 32, 160), Run: func(c *core.Ctx, idx int) {
				if hist.err != "" {
					c.Inconclusive(hist.err)
					return
				}
				self, _ := os.Executable()
				cmd := exec.Command(self, "stampede", fmt.Sprint(c.Seed), fmt.Sprint(c.Worker%4), fmt.Sprint(idx), c.Mode)
				cmd.Env = append(os.Environ(), fmt.Sprintf("GOMAXPROCS=%d", procs[idx%4]))
				var so, se bytes.Buffer
				cmd.Stdout, cmd.Stderr = &so, &se
				err := cmd.Run()
				if err != nil {
					c.Violation("stampede-process-died", map[string]any{"error": err.Error(), "stderr": clip(se.String(), 3000)})
					return
				}
				var rep struct {
					Plans       [][]int        `json:"plans"`
					Results     [][]CallResult `json:"results"`
					PoolErrors  []string       `json:"pool_errors"`
					InFlight    int64          `json:"in_flight"`
					MaxInFlight int64          `json:"max_in_flight"`
					Patches     string         `json:"patches"`
				}
				if err := stdjson.Unmarshal(so.Bytes(), &rep); err != nil {
					c.Inconclusive("stampede child output unreadable: " + err.Error())
					return
				}
				c.Count("stampedes")
				for gi, plan := range rep.Plans {
					for j, ci := range plan {
						c.Eval(1)
						if j >= len(rep.Results[gi]) {
							continue
						}
						if why := SameResult(hist.pool.Calls[ci].API, rep.Results[gi][j], hist.alone[ci]); why != "" {
							c.Violation("cold-start-result-differs-from-alone", map[string]any{"call": hist.pool.Calls[ci], "why": why, "concurrent": rep.Results[gi][j], "alone": hist.alone[ci]})
							return
						}
					}
				}
				if len(rep.PoolErrors) > 0 || rep.InFlight != 0 || rep.Patches != "" {
					c.Violation("cold-start-pool-or-patch-violation", map[string]any{"pool_errors": rep.PoolErrors, "in_flight": rep.InFlight, "patches": rep.Patches})
					return
				}
				c.Nontrivial("stampede", fmt.Sprint(rep.Plans))
			}},
		},
	})
}
