package props

import (
	"strings"
	"sync"

	jp "github.com/evanphx/json-patch/v5"
	"github.com/evanphx/json-patch/v5/verifharness/core"
	"github.com/evanphx/json-patch/v5/verifharness/gen"
	jr "github.com/evanphx/json-patch/v5/verifharness/jsonref"
	"github.com/evanphx/json-patch/v5/verifharness/mon"
	"github.com/evanphx/json-patch/v5/verifharness/ref7396"
)

// A small universe of JSON values for the pairwise-exhaustive families of the
// merge-patch properties (C02, C03, C06, C07).
var (
	universeOnce sync.Once
	universe     []string
	universeObjs []string
)

func buildUniverse() {
	scalars := []string{`null`, `true`, `0`, `1.0`, `"s"`, `""`}
	small := append([]string{}, scalars...)
	small = append(small, `[]`, `{}`, `[null]`, `[1]`, `[{"a":null}]`, `[[]]`, `{"a":null}`, `{"a":1}`, `{"b":"s"}`, `{"a":{}}`, `{"a":[]}`)
	universe = append(universe, small...)
	// objects with one or two members drawn from the small set
	for _, v := range small {
		universe = append(universe, `{"a":`+v+`}`)
	}
	for _, v := range []string{`null`, `1`, `{}`, `{"a":null}`, `{"a":1}`, `[{"b":null}]`, `{"b":{"c":null}}`} {
		for _, w := range []string{`null`, `2`, `{"c":null}`, `{"a":2}`} {
			universe = append(universe, `{"a":`+v+`,"b":`+w+`}`)
			universe = append(universe, `{"b":`+w+`,"a":`+v+`}`)
		}
	}
	for _, v := range []string{`{"a":null}`, `{"a":1}`, `{"a":{"a":1}}`, `{"a":{"a":null,"b":1}}`} {
		universe = append(universe, `{"a":{"a":`+v+`}}`)
	}
	seen := map[string]bool{}
	var u []string
	for _, t := range universe {
		if !seen[t] {
			seen[t] = true
			u = append(u, t)
			if t[0] == '{' {
				universeObjs = append(universeObjs, t)
			}
		}
	}
	universe = u
}

// surrogateNames are member-name texts that decode to pairwise different names.
var surrogateNames = []string{`"\ud800\u0041"`, `"\ud800\u0042"`, `"\udc00\u0043"`, `"\ud800\ud800\udc00"`, `"\ud83d\ude00"`, `"\ud83d\u0044"`, `"\u0045\ud800"`, `"\ud800"`,
	`"\ud800\ud801\u0046"`, `"\udbff\udfff"`, `"\ud800\\u0047"`, `"\ud800G"`, `"\ud800\u00e9"`, `"\ud83d\ude00\u0041"`, `"\ud83d\ude01"`, `"A"`, `"\u0042"`}

func universeN() int    { universeOnce.Do(buildUniverse); return len(universe) }
func universeObjN() int { universeOnce.Do(buildUniverse); return len(universeObjs) }

type mergeCall func(a, b []byte) ([]byte, error)

func callMerge(f mergeCall, a, b string) (out []byte, err error, pn *mon.Panic) {
	pn = mon.Try(func() { out, err = f([]byte(a), []byte(b)) })
	if pn == nil {
		pn = retainResult("a merge-patch entry point", out)
	}
	return
}

// judgeMerge checks one MergePatch call against RFC 7396.
// wsWrap puts legal JSON whitespace (space, tab, LF, CR and mixtures) around a text in one case out of four.
func wsWrap(c *core.Ctx, t string) string {
	if c.R.Intn(4) != 0 {
		return t
	}
	ws := []string{" ", "\t", "\n", "\r", "\r\n", " \r ", "\n\t\r "}
	return ws[c.R.Intn(len(ws))] + t + []string{"", "", "\r", "\n", " \t"}[c.R.Intn(5)]
}

func judgeMerge(c *core.Ctx, f mergeCall, tag string, docT, patT string) {
	docT, patT = wsWrap(c, docT), wsWrap(c, patT)
	doc, pat := mustParse(docT), mustParse(patT)
	out, err, pn := callMerge(f, docT, patT)
	c.Eval(1)
	d := map[string]any{"doc": clip(docT, 1500), "patch": clip(patT, 1500), "output": clip(string(out), 1500), "error": errText(err)}
	if doc.K == jr.Null || doc.HasDup() || pat.HasDup() || (tag != "" && pat.K != jr.Obj && pat.K != jr.Arr) {
		c.Count("out_of_domain")
		return
	}
	c.Count("in_domain")
	if pn != nil {
		d["panic"] = panicDetail(pn)
		c.Violation(tag+pn.Sig(), d)
		return
	}
	if err != nil {
		c.Violation(tag+"merge-fails-on-wellformed-input", d)
		return
	}
	got, perr := jr.Parse(out)
	if perr != nil {
		c.Violation(tag+"merge-output-not-json", d)
		return
	}
	want := ref7396.Merge(doc, pat)
	d["reference"] = clip(want.String(), 1500)
	if !jr.Equal(want, got, jr.EqMode{}) {
		sig := "merge-differs-from-rfc7396"
		switch {
		case pat.K != jr.Obj:
			sig += ":non-object-patch-not-verbatim"
		case doc.K != jr.Obj:
			sig += ":non-object-document"
		case ref7396.NullUnderArray(pat, false):
			sig += ":null-member-beneath-array"
		}
		c.Violation(tag+sig, d)
		return
	}
	// "verbatim": a non-object patch is returned with its literals (and, for arrays and scalars, its spelling) intact
	if pat.K != jr.Obj && !jr.Equal(pat, got, jr.EqMode{Ordered: true}) {
		c.Violation(tag+"non-object-patch-not-returned-verbatim", d)
		return
	}
	c.Count("agree")
	if pat.K == jr.Obj && len(pat.Keys) > 0 {
		c.Nontrivial(tag, docT, patT)
	}
	switch {
	case pat.K != jr.Obj:
		c.Count("shape:non-object-patch")
	case doc.K != jr.Obj:
		c.Count("shape:non-object-document")
	case pat.Depth() >= 3:
		c.Count("shape:deep-patch")
	}
	if ref7396.NullUnderArray(pat, false) {
		c.Count("shape:null-member-beneath-array")
	}
	if c.WantSample() {
		c.Sample(d)
	}
}

func init() {
	n := func(q, t int) func(core.Tier) int {
		return func(tier core.Tier) int {
			if tier == core.Thorough {
				return t
			}
			return q
		}
	}
	prof := gen.Hostile().With(func(p *gen.Profile) { p.Keys = gen.MergeKeys; p.Width = 4; p.ScalarBias = 35 })
	near := gen.Hostile().With(func(p *gen.Profile) { p.Keys = gen.NearMissKeys; p.Width = 4; p.ScalarBias = 40 })
	core.Register(&core.Prop{
		ID:    "C02",
		Title: "RFC 7396 merge patch application computes the RFC result (v5)",
		Rule: "MergePatch(document, patch) of the real library is compared (members unordered, numbers by literal) with the RFC 7396 pseudo-code implemented independently. Patches are derived from the document (delete/replace/merge/type change at random depths, nulls at every depth, arrays holding objects with null members, non-object roots on either side) or drawn independently; " +
			"plus all ordered pairs of a fixed universe of small values (exhaustive). non-trivial = non-null document and an object patch with at least one member; distinct = distinct (document text, patch text).",
		Assumptions: []string{"ref7396.Merge is the RFC's pseudo-code (self-tested on the RFC's appendix A examples)", "documents and patches without duplicate member names (stated domain)"},
		Setup:       setPoolMode,
		Finish:      poolFinish,
		Floors: func(t core.Tier, m *core.Merged) []string {
			out := poolFloor(m)
			for _, k := range []string{"shape:non-object-patch", "shape:non-object-document", "shape:deep-patch", "shape:null-member-beneath-array"} {
				if m.Counts[k] < 200 {
					out = append(out, k+" seen fewer than 200 times")
				}
			}
			return out
		},
		Families: []core.Family{
			{Name: "universe-pairs", Exhaustive: true, Count: func(core.Tier) int { return universeN() * universeN() }, Run: func(c *core.Ctx, idx int) {
				judgeMerge(c, jp.MergePatch, "", universe[idx/len(universe)], universe[idx%len(universe)])
			}},
			{Name: "deep-documents-and-patches", Exhaustive: true, Count: func(core.Tier) int { return len(deepDepths) * 2 }, Run: func(c *core.Ctx, idx int) {
				d := deepDepths[idx/2]
				doc := deepWrap(d, `{"keep":1,"drop":2,"chg":3,"o":{"x":1,"y":[1]}}`)
				pat := deepWrap(d, `{"drop":null,"chg":4,"o":{"y":null,"n":{"m":null,"v":1}},"new":[1]}`)
				if idx%2 == 1 {
					pat = deepWrap(d/2+1, `[1,{"a":null}]`) // replaces everything below the middle
				}
				judgeMerge(c, jp.MergePatch, "", doc, pat)
				c.Count("deep:cases")
			}},
			{Name: "derived-patches", Count: n(60000, 6000000), Run: func(c *core.Ctx, idx int) {
				docT := prof.Any(c.R)
				if idx%5 != 0 {
					docT = prof.Object(c.R, 1+c.R.Intn(4))
				}
				judgeMerge(c, jp.MergePatch, "", docT, genMergePatchFor(c.R, prof, mustParse(docT)))
			}},
			{Name: "names-that-differ-by-case-folding-or-normalisation", Count: n(8000, 400000), Run: func(c *core.Ctx, idx int) {
				docT := near.Object(c.R, 1+c.R.Intn(3))
				patT := near.Object(c.R, 1+c.R.Intn(3))
				if idx%2 == 0 {
					patT = genMergePatchFor(c.R, near, mustParse(docT))
				}
				judgeMerge(c, jp.MergePatch, "", docT, patT)
				c.Count("near-miss-names:cases")
			}},
			{Name: "names-with-surrogate-escapes", Count: n(4000, 200000), Run: func(c *core.Ctx, idx int) {
				// member names spelled with \u escapes around surrogates, paired and unpaired: pairwise different names once
				// decoded (an unpaired half reads as U+FFFD, what follows it is kept), several of them side by side
				perm := c.R.Perm(len(surrogateNames))
				nd := 2 + c.R.Intn(4)
				var doc, pat []string
				for i, pi := range perm[:nd] {
					doc = append(doc, surrogateNames[pi]+":"+[]string{"1", `{"v":2}`, `"s"`, `[3]`}[(i+idx)%4])
					switch c.R.Intn(4) {
					case 0:
						pat = append(pat, surrogateNames[pi]+":null")
					case 1:
						pat = append(pat, surrogateNames[pi]+`:{"w":null,"v":7}`)
					case 2:
						pat = append(pat, surrogateNames[pi]+`:"new"`)
					}
				}
				for _, pi := range perm[nd : nd+c.R.Intn(3)] {
					pat = append(pat, surrogateNames[pi]+`:{"added":1,"gone":null}`)
				}
				judgeMerge(c, jp.MergePatch, "", "{"+strings.Join(doc, ",")+"}", "{"+strings.Join(pat, ",")+"}")
				c.Count("surrogate-names:cases")
			}},
			{Name: "independent-pairs", Count: n(30000, 3000000), Run: func(c *core.Ctx, idx int) {
				judgeMerge(c, jp.MergePatch, "", prof.Any(c.R), prof.Any(c.R))
			}},
		},
	})
}
