// Package props holds one file per property: workload, in-domain predicate,
// oracle and evidence. This file has what they share.
package props

import (
	"bytes"
	"fmt"
	"strconv"
	"strings"
	"sync"

	jp "github.com/evanphx/json-patch/v5"
	ij "github.com/evanphx/json-patch/v5/internal/json"
	"github.com/evanphx/json-patch/v5/verifharness/core"
	"github.com/evanphx/json-patch/v5/verifharness/gen"
	jr "github.com/evanphx/json-patch/v5/verifharness/jsonref"
	"github.com/evanphx/json-patch/v5/verifharness/mon"
	ref "github.com/evanphx/json-patch/v5/verifharness/ref6902"
)

var raceProps = map[string]bool{}

func NeedsRace(id string) bool { return raceProps[id] }

// setPoolMode switches the pool sanitizer of the embedded codec to the mode
// of this worker. Every property calls it from Setup.
func setPoolMode(c *core.Ctx) {
	switch c.Mode {
	case "poison":
		ij.VerifPoolMode.Store(ij.VerifModePoison)
	case "fresh":
		ij.VerifPoolMode.Store(ij.VerifModeFresh)
	default:
		ij.VerifPoolMode.Store(ij.VerifModeOff)
	}
}

// poolFinish reports pool-ownership violations and pool statistics at the
// quiescent point at the end of a worker.
func poolFinish(c *core.Ctx) {
	for _, e := range ij.VerifPoolErrors() {
		c.Violation("pool-ownership:"+firstLine(e), map[string]any{"error": e})
	}
	if n := ij.VerifPool.InFlight.Load(); n != 0 {
		c.Violation("pool-in-flight-at-quiescence", map[string]any{"in_flight": n})
	}
	c.CountN("pool.acquire.decodeState", ij.VerifPool.AcqDec.Load())
	c.CountN("pool.acquire.encodeState", ij.VerifPool.AcqEnc.Load())
	c.CountN("pool.acquire.scanner", ij.VerifPool.AcqScan.Load())
	c.CountN("pool.release.decodeState", ij.VerifPool.RelDec.Load())
	c.CountN("pool.release.encodeState", ij.VerifPool.RelEnc.Load())
	c.CountN("pool.release.scanner", ij.VerifPool.RelScan.Load())
	c.CountN("pool.poisoned", ij.VerifPool.Poisoned.Load())
	c.CountN("pool.freshened", ij.VerifPool.Freshened.Load())
	c.CountN("pool.distinct_states", int64(ij.VerifDistinctStates()))
}

func firstLine(s string) string {
	if i := strings.IndexByte(s, '\n'); i >= 0 {
		s = s[:i]
	}
	// strip the pointer value
	if i := strings.Index(s, " 0x"); i >= 0 {
		s = s[:i]
	}
	return s
}

// poolFloor: a run in which the pool hooks never fired cannot vouch for
// anything that depends on them.
func poolFloor(m *core.Merged) []string {
	if m.Counts["pool.acquire.decodeState"] == 0 || m.Counts["pool.release.scanner"] == 0 {
		return []string{"pool hooks never fired (library built without the verif tag?)"}
	}
	if m.Modes["poison"] > 0 && m.Counts["pool.poisoned"] == 0 {
		return []string{"poison mode selected but no state was poisoned"}
	}
	return nil
}

// ---------------------------------------------------------------- v5 adapter

type V5Opts struct {
	NegIdx       bool
	AllowMissing bool
	EnsurePath   bool
	EscapeHTML   bool
	Limit        int64
}

func (o V5Opts) Lib() *jp.ApplyOptions {
	lo := jp.NewApplyOptions()
	lo.SupportNegativeIndices = o.NegIdx
	lo.AllowMissingPathOnRemove = o.AllowMissing
	lo.EnsurePathExistsOnAdd = o.EnsurePath
	lo.EscapeHTML = o.EscapeHTML
	lo.AccumulatedCopySizeLimit = o.Limit
	return lo
}

func (o V5Opts) Ref() ref.Opts {
	return ref.Opts{NegIdx: o.NegIdx, AllowMissing: o.AllowMissing, EnsurePath: o.EnsurePath}
}

func (o V5Opts) String() string {
	return fmt.Sprintf("neg=%v allowMissing=%v ensure=%v escapeHTML=%v limit=%d", o.NegIdx, o.AllowMissing, o.EnsurePath, o.EscapeHTML, o.Limit)
}

type ApplyResult struct {
	DecodeErr error
	Out       []byte
	Err       error
	Panic     *mon.Panic
	Events    *ApplyEvents
}

// ApplyEvents is what the H1/H2 hooks reported for one Apply call.
type ApplyEvents struct {
	Begun  bool
	Ops    int
	Done   []OpEvent
	Ended  bool
	Inv    jp.VerifInvariants
	Copies []CopyEvent
}

type OpEvent struct {
	Kind   string
	Failed bool
}

type CopyEvent struct {
	Size  int
	Total int64
}

// evByOp maps the *ApplyOptions of a watched call to its event record. The
// hooks run on the goroutine that executes the call, so a record is only ever
// touched by one goroutine; the map itself is a sync.Map, so the monitor adds
// no lock that could serialise concurrent calls.
var evByOp sync.Map

func init() {
	jp.VerifHooks.ApplyBegin = func(o *jp.ApplyOptions, n int) {
		if e, ok := evByOp.Load(o); ok {
			e.(*ApplyEvents).Begun, e.(*ApplyEvents).Ops = true, n
		}
	}
	jp.VerifHooks.OpDone = func(o *jp.ApplyOptions, kind string, err error) {
		if e, ok := evByOp.Load(o); ok {
			ev := e.(*ApplyEvents)
			ev.Done = append(ev.Done, OpEvent{Kind: kind, Failed: err != nil})
		}
	}
	jp.VerifHooks.ApplyEnd = func(o *jp.ApplyOptions, inv jp.VerifInvariants) {
		if e, ok := evByOp.Load(o); ok {
			e.(*ApplyEvents).Ended, e.(*ApplyEvents).Inv = true, inv
		}
	}
	jp.VerifHooks.CopyAccounted = func(o *jp.ApplyOptions, size int, total int64) {
		if e, ok := evByOp.Load(o); ok {
			ev := e.(*ApplyEvents)
			ev.Copies = append(ev.Copies, CopyEvent{size, total})
		}
	}
}

// watch registers an options value so that the hooks record its events.
func watch(o *jp.ApplyOptions) *ApplyEvents {
	e := &ApplyEvents{}
	evByOp.Store(o, e)
	return e
}

func unwatch(o *jp.ApplyOptions) { evByOp.Delete(o) }

// ApplyV5 runs DecodePatch + ApplyIndentWithOptions of the real library under
// the panic monitor, with hook events recorded.
// reuseOpts, when non-nil, is the one *ApplyOptions value that ApplyV5 passes to every call
// (its exported fields are set from the case's options before each call): an options value may
// be reused for any number of calls, whatever happened in the earlier ones.
var reuseOpts *jp.ApplyOptions

// reuseFrozen: the caller set the reused value once (to reuseSettings) and never touches it
// again; calls with other settings get a value of their own.
var (
	reuseFrozen   bool
	reuseSettings V5Opts
)

func ApplyV5(doc, patch string, o V5Opts, indent string) ApplyResult {
	var res ApplyResult
	lo := o.Lib()
	if reuseOpts != nil && reuseFrozen {
		if o == reuseSettings {
			lo = reuseOpts
		}
	} else if reuseOpts != nil {
		reuseOpts.SupportNegativeIndices, reuseOpts.AllowMissingPathOnRemove, reuseOpts.EnsurePathExistsOnAdd = lo.SupportNegativeIndices, lo.AllowMissingPathOnRemove, lo.EnsurePathExistsOnAdd
		reuseOpts.EscapeHTML, reuseOpts.AccumulatedCopySizeLimit = lo.EscapeHTML, lo.AccumulatedCopySizeLimit
		lo = reuseOpts
	}
	res.Events = watch(lo)
	defer unwatch(lo)
	var dec jp.Patch
	res.Panic = mon.Try(func() {
		p, err := jp.DecodePatch([]byte(patch))
		if err != nil {
			res.DecodeErr = err
			return
		}
		dec = p
		res.Out, res.Err = p.ApplyIndentWithOptions([]byte(doc), indent, lo)
	})
	if res.Panic == nil && dec != nil && core.Hash64(doc, patch)%3 == 0 {
		res.Panic = entryPointsAgree(dec, doc, indent, o, res.Out, res.Err)
	}
	if res.Panic == nil {
		res.Panic = retainResult("v5 ApplyIndentWithOptions", res.Out)
	}
	return res
}

// Results that callers still hold.  The bytes a call returned belong to the caller: the last few results of each
// entry point are kept (the slice the library returned and a private copy of its contents) and looked at again
// after every later call.  A result that has changed - its storage reused for a later call's output, a pooled
// buffer handed out twice - is reported through the same channel as a panic of the later call.
type retained struct {
	what string
	live []byte
	copy string
}

var retainRing [12]retained
var retainNext int

func retainResult(what string, out []byte) *mon.Panic {
	for i := range retainRing {
		r := &retainRing[i]
		if r.live != nil && string(r.live) != r.copy {
			pn := &mon.Panic{Deviation: true, Class: "result-of-an-earlier-call-changed-by-a-later-call", Site: r.what,
				Value: fmt.Sprintf("a result returned earlier by %s read %s when it was returned and reads %s after a later call (%s)", r.what, clip(r.copy, 300), clip(string(r.live), 300), what),
				Entry: what, Stack: "(no stack: a retained result was compared with its contents at return time)"}
			r.live = nil
			return pn
		}
	}
	if len(out) > 0 {
		retainRing[retainNext%len(retainRing)] = retained{what: what, live: out, copy: string(out)}
		retainNext++
	}
	return nil
}

// entryPointsAgree: Apply, ApplyIndent and ApplyWithOptions are documented as
// ApplyIndentWithOptions with defaults filled in. On one input in three the
// other applicable entry points are called as well and must return the same
// bytes and the same error; a disagreement (options not passed on, defaults
// taken from the wrong place, indentation applied to something else) is
// reported through the same channel as a panic, so every judge sees it.
func entryPointsAgree(p jp.Patch, doc, indent string, o V5Opts, out []byte, err error) *mon.Panic {
	type variant struct {
		name string
		call func() ([]byte, error)
	}
	var vs []variant
	if indent == "" {
		vs = append(vs, variant{"ApplyWithOptions", func() ([]byte, error) { return p.ApplyWithOptions([]byte(doc), o.Lib()) }})
	}
	if o.NegIdx == jp.SupportNegativeIndices && !o.AllowMissing && !o.EnsurePath && o.EscapeHTML && o.Limit == jp.AccumulatedCopySizeLimit {
		vs = append(vs, variant{"ApplyIndent", func() ([]byte, error) { return p.ApplyIndent([]byte(doc), indent) }})
		if indent == "" {
			vs = append(vs, variant{"Apply", func() ([]byte, error) { return p.Apply([]byte(doc)) }})
		}
	}
	for _, v := range vs {
		var o2 []byte
		var e2 error
		if pn := mon.Try(func() { o2, e2 = v.call() }); pn != nil {
			return pn
		}
		if !bytes.Equal(out, o2) || (out == nil) != (o2 == nil) || errText(err) != errText(e2) {
			return &mon.Panic{Deviation: true, Class: "entry-points-disagree", Site: v.name,
				Value: fmt.Sprintf("ApplyIndentWithOptions(indent %q) returned (%s, %q) but %s returned (%s, %q) for the same patch, document and options", indent, clip(string(out), 300), errText(err), v.name, clip(string(o2), 300), errText(e2)),
				Entry: "ApplyIndentWithOptions", Stack: "(no stack: two entry points were compared)"}
		}
	}
	return nil
}

// ---------------------------------------------------------------- patch text

// OpText spells one operation as JSON; value is the JSON text of "value".
func OpText(kind, path, from, value string, hasValue bool) string {
	var sb strings.Builder
	sb.WriteString(`{"op":`)
	sb.WriteString(strconv.Quote(kind))
	sb.WriteString(`,"path":`)
	sb.WriteString(jr.Quote(path))
	if kind == "move" || kind == "copy" {
		sb.WriteString(`,"from":`)
		sb.WriteString(jr.Quote(from))
	}
	if hasValue {
		sb.WriteString(`,"value":`)
		sb.WriteString(value)
	}
	sb.WriteString("}")
	return sb.String()
}

// opFromText reads an operation spelled by OpText back into the reference's form.
func opFromText(t string) ref.Op {
	v := mustParse(t)
	var op ref.Op
	if x, _ := v.Get("op"); x != nil {
		op.Kind = x.S
	}
	if x, _ := v.Get("path"); x != nil {
		op.Path = x.S
	}
	if x, _ := v.Get("from"); x != nil {
		op.From = x.S
	}
	if x, _ := v.Get("value"); x != nil {
		op.Value, op.HasValue = x, true
	}
	return op
}

func PatchText(ops []string) string { return "[" + strings.Join(ops, ",") + "]" }

func mustParse(s string) *jr.Value {
	v, err := jr.Parse([]byte(s))
	if err != nil {
		panic("harness generated ill-formed JSON: " + s)
	}
	return v
}

func clip(s string, n int) string {
	if len(s) > n {
		return s[:n] + fmt.Sprintf("…(+%d bytes)", len(s)-n)
	}
	return s
}

func errText(err error) string {
	if err == nil {
		return ""
	}
	return err.Error()
}

func panicDetail(p *mon.Panic) map[string]any {
	return map[string]any{"value": p.Value, "class": p.Class, "site": p.Site, "entry": p.Entry, "stack": p.Stack}
}

var _ = gen.U
