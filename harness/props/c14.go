package props

import (
	"fmt"
	"strings"
	"sync"

	"github.com/evanphx/json-patch/v5/verifharness/core"
	"github.com/evanphx/json-patch/v5/verifharness/gen"
	jr "github.com/evanphx/json-patch/v5/verifharness/jsonref"
	ref "github.com/evanphx/json-patch/v5/verifharness/ref6902"
)

var ensureDocs = []string{
	`{}`, `[]`, `{"a":{}}`, `{"a":[]}`,
	`{"a":{"b":{"c":1}},"a/b":{"m~n":[1,2]}}`,
	`[[],{}]`,
	`{"a":[1,[2]],"b":{"0":{"1":2}}}`,
	`[[[1,2,3]]]`,
}
var ensureToks = []string{"a", "b", "a~1b", "m~0n", "0", "1", "2", "5", "01", "+1", "", "٣", "２０"} // (the last two: digits, but not ASCII digits - member names)

var (
	ensureOnce  sync.Once
	ensurePaths []string
)

func buildEnsurePaths(maxLen int) []string {
	var out []string
	var rec func(prefix string, left int)
	rec = func(prefix string, left int) {
		for _, t := range append(append([]string{}, ensureToks...), "-") {
			out = append(out, prefix+"/"+t)
		}
		if left > 1 {
			for _, t := range ensureToks {
				rec(prefix+"/"+t, left-1)
			}
		}
	}
	rec("", maxLen)
	return out
}

func nEnsure(t core.Tier) int {
	ensureOnce.Do(func() { ensurePaths = buildEnsurePaths(4) })
	n := 0
	for _, p := range ensurePaths {
		if strings.Count(p, "/") <= 3 || t == core.Thorough {
			n++
		}
	}
	return n * len(ensureDocs) * 2
}

func ensurePathsFor(t core.Tier) []string {
	ensureOnce.Do(func() { ensurePaths = buildEnsurePaths(4) })
	if t == core.Thorough {
		return ensurePaths
	}
	var out []string
	for _, p := range ensurePaths {
		if strings.Count(p, "/") <= 3 {
			out = append(out, p)
		}
	}
	return out
}

// resolveAdded finds the value an add put at path in the output: RFC 6901
// resolution, with a final '-' meaning the last element.
func resolveAdded(out *jr.Value, path string) *jr.Value {
	if strings.HasSuffix(path, "/-") {
		if par := out.Resolve(strings.TrimSuffix(path, "/-")); par != nil && par.K == jr.Arr {
			if len(par.A) == 0 {
				return nil
			}
			return par.A[len(par.A)-1]
		}
	}
	return out.Resolve(path)
}

// judgeEnsure checks one add (first operation of sc) under EnsurePathExistsOnAdd,
// possibly followed by further operations.
// c14Ref: zero-padded and signed digit strings are member names where a container has to be created.
func c14Ref(o V5Opts) ref.Opts {
	r := o.Ref()
	r.ZeroPaddedAreNames = true
	r.EmptyTokens = true // "/a//b": the empty token names the member "" (RFC 6901), also where containers have to be created
	return r
}

func judgeEnsure(c *core.Ctx, sc *SeqCase, o V5Opts) {
	o.EnsurePath = true
	want := ref.Eval(sc.Doc, sc.Ops, c14Ref(o))
	c.Eval(1)
	if want.OutOfDom != "" {
		c.Count("out_of_domain")
		c.Count("ood:" + want.OutOfDom)
		if want.OutOfDom == "ensure: bad array token" && len(sc.Ops) == 1 && sc.Ops[0].Kind == "add" {
			// a member-name token where the document holds an array: whether that is an error is not
			// stated, but an add that reports success must have put the value at the path
			r := ApplyV5(sc.DocText, sc.Patch(), o, "")
			c.Eval(1)
			if r.Panic == nil && r.Err == nil && r.DecodeErr == nil {
				got, err := jr.Parse(r.Out)
				if err != nil || got.Resolve(sc.Ops[0].Path) == nil || !jr.Equal(got.Resolve(sc.Ops[0].Path), sc.Ops[0].Value, jr.EqMode{}) {
					d := sc.Describe()
					d["options"], d["library_output"] = o.String(), clip(string(r.Out), 1500)
					c.Violation("add-reports-success-but-value-not-at-path", d)
					return
				}
			}
			c.Count("name-token-on-array:checked")
		}
		return
	}
	c.Count("in_domain")
	res := ApplyV5(sc.DocText, sc.Patch(), o, "")
	d := sc.Describe()
	d["options"] = o.String()
	d["library_output"] = clip(string(res.Out), 1500)
	d["library_error"] = errText(res.Err)
	if want.Doc != nil {
		d["reference"] = clip(want.Doc.String(), 1500)
	} else {
		d["reference"] = fmt.Sprintf("fails at operation %d (%s): %s", want.FailIndex, sc.Ops[want.FailIndex].Kind, want.Cause)
	}
	if res.Panic != nil {
		d["panic"] = panicDetail(res.Panic)
		c.Violation(res.Panic.Sig(), d)
		return
	}
	switch {
	case want.Doc == nil && res.Err == nil:
		c.Violation(fmt.Sprintf("library-succeeds-reference-fails:%s@%s", want.Cause, sc.Ops[want.FailIndex].Kind), d)
		return
	case want.Doc != nil && res.Err != nil:
		c.Violation("library-fails-reference-succeeds@"+sc.Ops[len(res.Events.Done)-1].Kind, d)
		return
	case want.Doc == nil:
		c.Count("agree:fail:" + want.Cause.String())
		return
	}
	got, err := jr.Parse(res.Out)
	if err != nil {
		c.Violation("output-not-json", d)
		return
	}
	if !jr.Equal(want.Doc, got, jr.EqMode{Ordered: true}) {
		if jr.Equal(want.Doc, got, jr.EqMode{}) {
			c.Violation("member-order-differs-from-reference", d)
		} else {
			c.Violation("value-mismatch-with-reference", d)
		}
		return
	}
	c.Count("agree:ok")

	// The remaining clauses are about the add itself: decide them on the
	// first operation alone, independently of the reference's ensure logic.
	first := sc.Ops[0]
	if first.Kind != "add" || first.Path == "" {
		return
	}
	one := &SeqCase{DocText: sc.DocText, Doc: sc.Doc, Ops: sc.Ops[:1], OpTexts: sc.OpTexts[:1]}
	r1 := res
	if len(sc.Ops) > 1 {
		r1 = ApplyV5(one.DocText, one.Patch(), o, "")
		c.Eval(1)
	}
	if r1.Err != nil || r1.Panic != nil {
		return // decided above on the whole sequence
	}
	out1, err := jr.Parse(r1.Out)
	if err != nil {
		c.Violation("output-not-json", d)
		return
	}
	d["after_first_add"] = clip(string(r1.Out), 1500)
	// (1) the added value is found at the path
	at := resolveAdded(out1, first.Path)
	if at == nil || !jr.Equal(at, first.Value, jr.EqMode{}) {
		c.Violation("added-value-not-found-at-path", d)
		return
	}
	// how much of the path existed before?
	toks := strings.Split(first.Path[1:], "/")
	existing := 0
	for i := 1; i < len(toks); i++ {
		if sc.Doc.Resolve("/"+strings.Join(toks[:i], "/")) == nil {
			break
		}
		existing = i
	}
	created := len(toks) - 1 - existing
	if created > 0 {
		c.Nontrivial(sc.DocText, first.Path, first.Value.String())
		c.CountN("containers-created", int64(created))
	}
	// (2) frame: every location that existed before and is not on the path keeps its value,
	// unless the add inserts in front of existing elements of an existing array (plain add semantics).
	shift := false
	if created == 0 {
		par := sc.Doc.Resolve("/" + strings.Join(toks[:len(toks)-1], "/"))
		if len(toks) == 1 {
			par = sc.Doc
		}
		if par != nil && par.K == jr.Arr && toks[len(toks)-1] != "-" {
			shift = true
		}
	}
	if !shift {
		bad := ""
		sc.Doc.Walk("", func(ptr string, v *jr.Value) {
			if bad != "" || ptr == first.Path || strings.HasPrefix(first.Path, ptr+"/") || ptr == "" {
				return
			}
			if strings.HasPrefix(ptr, first.Path+"/") {
				return // below a replaced member
			}
			nv := out1.Resolve(ptr)
			if nv == nil {
				bad = ptr + " disappeared"
				return
			}
			// containers on the way are compared through their untouched descendants
			if v.K == jr.Obj || v.K == jr.Arr {
				return
			}
			if !jr.Equal(v, nv, jr.EqMode{}) {
				bad = ptr + " changed"
			}
		})
		if bad != "" {
			d["frame"] = bad
			c.Violation("existing-location-changed", d)
			return
		}
		c.Count("frame-checked")
	}
	// (3) created containers hold nothing but the path and null padding
	for i := existing + 1; i < len(toks); i++ {
		con := out1.Resolve("/" + strings.Join(toks[:i], "/"))
		if con == nil {
			c.Violation("created-container-not-found", d)
			return
		}
		switch con.K {
		case jr.Obj:
			if len(con.Keys) != 1 {
				c.Violation("created-object-holds-more-than-the-path", d)
				return
			}
		case jr.Arr:
			nonNull := 0
			for _, e := range con.A {
				if e.K != jr.Null {
					nonNull++
				}
			}
			limit := 1
			if first.Value.K == jr.Null && i == len(toks)-1 {
				limit = 0
			}
			if nonNull > limit {
				c.Violation("created-array-holds-more-than-path-and-padding", d)
				return
			}
		default:
			c.Violation("created-location-is-not-a-container", d)
			return
		}
	}
	// (4) an add that succeeds without the option gives the same result with it
	off := o
	off.EnsurePath = false
	r0 := ApplyV5(one.DocText, one.Patch(), off, "")
	c.Eval(1)
	if r0.Panic == nil && r0.Err == nil {
		c.Count("plain-add-compared")
		if string(r0.Out) != string(r1.Out) {
			d["without_option"] = clip(string(r0.Out), 1500)
			c.Violation("option-changes-an-add-that-needs-no-creation", d)
			return
		}
	}
	if c.WantSample() && created > 0 {
		c.Sample(d)
	}
}

func init() {
	n := func(q, t int) func(core.Tier) int {
		return func(tier core.Tier) int {
			if tier == core.Thorough {
				return t
			}
			return q
		}
	}
	prof := gen.Hostile().With(func(p *gen.Profile) {
		p.Keys = []string{"a", "b", "c", "a/b", "m~n", "~", "~1", "x<y", "é", "k"}
		p.ScalarBias = 30
	})
	core.Register(&core.Prop{
		ID:    "C14",
		Title: "EnsurePathExistsOnAdd creates exactly the missing parents (v5)",
		Rule: "An add under EnsurePathExistsOnAdd (alone or followed by further operations) is compared with the reference ensure-then-add; independently of the reference, the added value must be found at the path by the RFC 6901 resolver in the output, every pre-existing location off the path must keep its value, " +
			"created containers must hold only the path and null padding, and an add that succeeds without the option must give identical bytes with it. Exhaustive: all paths of <= 3 (thorough: 4) tokens over {a,b,a~1b,m~0n,0,1,2,5,'-' last} on 8 documents x 2 values. " +
			"non-trivial = in-domain add that had to create at least one container; distinct = distinct (document, path, value).",
		Assumptions: []string{"reference ensure semantics as documented in DESIGN section 6 C14", "null/scalar on the path, negative indices and indices > 10^4 are outside the stated domain"},
		Setup:       setPoolMode,
		Finish:      poolFinish,
		Floors: func(t core.Tier, m *core.Merged) []string {
			out := poolFloor(m)
			if m.Counts["containers-created"] < 5000 {
				out = append(out, "fewer than 5000 containers created")
			}
			if m.Counts["frame-checked"] < 2000 || m.Counts["plain-add-compared"] < 500 {
				out = append(out, "frame / plain-add clauses exercised too rarely")
			}
			return out
		},
		Families: []core.Family{
			{Name: "paths-exhaustive", Exhaustive: true, Count: nEnsure, Run: func(c *core.Ctx, idx int) {
				paths := ensurePathsFor(c.Tier)
				val := []string{`"V"`, `null`}[idx%2]
				idx /= 2
				doc := ensureDocs[idx%len(ensureDocs)]
				path := paths[idx/len(ensureDocs)]
				sc := &SeqCase{DocText: doc, Doc: mustParse(doc), Ops: []ref.Op{{Kind: "add", Path: path, Value: mustParse(val), HasValue: true}}, OpTexts: []string{OpText("add", path, "", val, true)}}
				judgeEnsure(c, sc, V5Opts{NegIdx: idx%3 != 0, EscapeHTML: true})
			}},
			{Name: "ensure-again-after-the-path-was-overwritten", Exhaustive: true, Count: func(core.Tier) int { return 4 * 8 * 2 * 2 }, Run: func(c *core.Ctx, idx int) {
				// add P/x creates P; then an ancestor of P is overwritten, removed or replaced by something that lacks
				// P; then add P/y must create P again (nothing an earlier add ensured may be taken for granted)
				P := [][2]string{{"/a", "/a/b"}, {"/a", "/a/b/c"}, {"/l/0", "/l/0/k"}, {"/a/b", "/a/b/c/d"}}[idx%4]
				idx /= 4
				anc, par := P[0], P[1]
				between := []string{
					OpText("replace", anc, "", `{}`, true),
					OpText("replace", anc, "", `{"q":1}`, true),
					OpText("copy", anc, "/other", "", false),
					OpText("move", anc, "/other", "", false),
					OpText("add", "", "", `{"other":{"z":1},"l":[{}]}`, true),
					OpText("remove", anc, "", "", false),
					OpText("add", anc, "", `[]`, true),
					OpText("test", "/other/z", "", "1", true),
				}[idx%8]
				idx /= 8
				doc := []string{`{"other":{"z":1},"l":[{}]}`, `{"other":{"z":1},"l":[{}],"a":{"keep":true}}`}[idx%2]
				neg := idx/2 == 0
				texts := []string{OpText("add", par+"/x", "", `"X"`, true), between, OpText("add", par+"/y", "", `"Y"`, true)}
				sc := &SeqCase{DocText: doc, Doc: mustParse(doc), OpTexts: texts}
				for _, t := range texts {
					sc.Ops = append(sc.Ops, opFromText(t))
				}
				judgeEnsure(c, sc, V5Opts{NegIdx: neg, EscapeHTML: true})
				c.Count("ensure-again:cases")
			}},
			{Name: "test-then-ensure-add", Count: n(15000, 400000), Run: func(c *core.Ctx, idx int) {
				// passing test operations come first (on the root, on ancestors of the path, on siblings: comparing
				// parses - and half-parses - the nodes it visits), then the ensure-path add through those nodes
				o := V5Opts{NegIdx: c.R.Intn(2) == 0, EscapeHTML: true, EnsurePath: true}
				tp := prof.With(func(p *gen.Profile) { p.ScalarBias = 25; p.Width = 4 })
				sc := &SeqCase{Opts: o.Ref()}
				sc.DocText = tp.Root(c.R)
				sc.Doc = mustParse(sc.DocText)
				e := ref.New(sc.Doc, o.Ref())
				res, _ := gen.Pointers(e.Root)
				// the add: an existing container, then one to three new tokens
				var pre string
				for i := 0; i < 20; i++ {
					pre = res[c.R.Intn(len(res))]
					if v := valueAt(e, pre); v != nil && (v.K == jr.Obj || v.K == jr.Arr) {
						break
					}
					pre = ""
				}
				for k := 1 + c.R.Intn(2); k > 0; k-- {
					// tests on the root, on prefixes of the chosen place, on anything else
					var tpth string
					switch c.R.Intn(3) {
					case 0:
						tpth = ""
					case 1:
						tpth = pre
						if i := strings.LastIndex(pre, "/"); i > 0 && c.R.Intn(2) == 0 {
							tpth = pre[:i]
						}
					default:
						tpth = res[c.R.Intn(len(res))]
					}
					cur := valueAt(e, tpth)
					if cur == nil {
						continue
					}
					vt := tp.Respell(c.R, cur, true)
					sc.Ops = append(sc.Ops, ref.Op{Kind: "test", Path: tpth, Value: mustParse(vt), HasValue: true})
					sc.OpTexts = append(sc.OpTexts, OpText("test", tpth, "", vt, true))
				}
				path := pre
				for k := 1 + c.R.Intn(3); k > 0; k-- {
					t := []string{"n0", "n1", "0", "1", "2", jr.EncTok(tp.Keys[c.R.Intn(len(tp.Keys))])}[c.R.Intn(6)]
					if k == 1 && c.R.Intn(5) == 0 {
						t = "-"
					}
					path += "/" + t
				}
				sc.Ops = append(sc.Ops, ref.Op{Kind: "add", Path: path, Value: mustParse(`"v"`), HasValue: true})
				sc.OpTexts = append(sc.OpTexts, OpText("add", path, "", `"v"`, true))
				c.Count("test-then-ensure-add:cases")
				want := ref.Eval(sc.Doc, sc.Ops, o.Ref())
				if want.OutOfDom != "" {
					c.Count("out_of_domain")
					return
				}
				r := ApplyV5(sc.DocText, sc.Patch(), o, "")
				c.Eval(1)
				d := sc.Describe()
				d["options"], d["library_output"], d["library_error"] = o.String(), clip(string(r.Out), 1500), errText(r.Err)
				if r.Panic != nil {
					d["panic"] = panicDetail(r.Panic)
					c.Violation(r.Panic.Sig(), d)
					return
				}
				if (want.Doc == nil) != (r.Err != nil) {
					if want.Doc != nil {
						d["reference"] = clip(want.Doc.String(), 1500)
					}
					c.Violation("test-then-ensure-add:success-differs-from-reference", d)
					return
				}
				if want.Doc != nil {
					got, err := jr.Parse(r.Out)
					if err != nil || !jr.Equal(want.Doc, got, jr.EqMode{Ordered: true}) {
						d["reference"] = clip(want.Doc.String(), 1500)
						c.Violation("test-then-ensure-add:value-mismatch-with-reference", d)
						return
					}
					c.Nontrivial(sc.Canon())
				}
			}},
			{Name: "shrink-then-pad", Count: n(15000, 400000), Run: func(c *core.Ctx, idx int) {
				// arrays that were in the document lose elements (remove, move away) and are then padded by an
				// add through an index beyond their new end: the padding must be null, not what used to be there
				o := V5Opts{NegIdx: true, EscapeHTML: true, EnsurePath: true}
				ap := prof.With(func(p *gen.Profile) { p.ScalarBias = 20; p.NoNull = true; p.Width = 6 })
				sc := &SeqCase{Opts: o.Ref()}
				sc.DocText = ap.Root(c.R)
				sc.Doc = mustParse(sc.DocText)
				e := ref.New(sc.Doc, o.Ref())
				var arrays []string
				e.Root.Walk("", func(ptr string, x *jr.Value) {
					if x.K == jr.Arr && len(x.A) >= 2 {
						arrays = append(arrays, ptr)
					}
				})
				if len(arrays) == 0 {
					return
				}
				at := arrays[c.R.Intn(len(arrays))]
				push := func(op ref.Op, text string) bool {
					sc.Ops = append(sc.Ops, op)
					sc.OpTexts = append(sc.OpTexts, text)
					return e.Step(op) == ref.OK
				}
				for k := 1 + c.R.Intn(3); k > 0; k-- {
					cur := valueAt(e, at)
					if cur == nil || len(cur.A) == 0 {
						break
					}
					i := c.R.Intn(len(cur.A))
					if c.R.Intn(3) == 0 && at != "" {
						if !push(ref.Op{Kind: "move", From: at + "/" + fmt.Sprint(i), Path: "/moved" + fmt.Sprint(k)}, OpText("move", "/moved"+fmt.Sprint(k), at+"/"+fmt.Sprint(i), "", false)) {
							return
						}
					} else if !push(ref.Op{Kind: "remove", Path: at + "/" + fmt.Sprint(i)}, OpText("remove", at+"/"+fmt.Sprint(i), "", "", false)) {
						return
					}
				}
				cur := valueAt(e, at)
				if cur == nil {
					return
				}
				pth := at + "/" + fmt.Sprint(len(cur.A)+c.R.Intn(3)) + []string{"/x", "/0", "/-", "/x/y"}[c.R.Intn(4)]
				push(ref.Op{Kind: "add", Path: pth, Value: mustParse(`"v"`), HasValue: true}, OpText("add", pth, "", `"v"`, true))
				c.Count("shrink-then-pad:cases")
				want := ref.Eval(sc.Doc, sc.Ops, o.Ref())
				res := ApplyV5(sc.DocText, sc.Patch(), o, "")
				c.Eval(1)
				if want.OutOfDom != "" {
					c.Count("out_of_domain")
					return
				}
				d := sc.Describe()
				d["options"], d["library_output"], d["library_error"] = o.String(), clip(string(res.Out), 1500), errText(res.Err)
				if res.Panic != nil {
					d["panic"] = panicDetail(res.Panic)
					c.Violation(res.Panic.Sig(), d)
					return
				}
				if (want.Doc == nil) != (res.Err != nil) {
					c.Violation("shrink-then-pad:success-differs-from-reference", d)
					return
				}
				if want.Doc != nil {
					got, err := jr.Parse(res.Out)
					if err != nil || !jr.Equal(want.Doc, got, jr.EqMode{}) {
						d["reference"] = clip(want.Doc.String(), 1500)
						c.Violation("shrink-then-pad:value-mismatch-with-reference", d)
						return
					}
					c.Nontrivial(sc.Canon())
				}
			}},
			{Name: "random-paths-then-ops", Count: n(50000, 1200000), Run: func(c *core.Ctx, idx int) {
				o := V5Opts{NegIdx: c.R.Intn(2) == 0, EscapeHTML: c.R.Intn(2) == 0, EnsurePath: true}
				docT := prof.Root(c.R)
				doc := mustParse(docT)
				// a path: some existing prefix, then new tokens
				res, _ := gen.Pointers(doc)
				var pre string
				for i := 0; i < 20; i++ {
					pre = res[c.R.Intn(len(res))]
					if v := doc.Resolve(pre); v != nil && (v.K == jr.Obj || v.K == jr.Arr) {
						break
					}
					pre = ""
				}
				path := pre
				for k := 1 + c.R.Intn(4); k > 0; k-- {
					var t string
					switch r := c.R.Intn(10); {
					case r < 4:
						t = jr.EncTok(prof.Keys[c.R.Intn(len(prof.Keys))])
					case r < 8:
						t = fmt.Sprint(c.R.Intn(4))
					case r == 8 && k == 1:
						t = "-"
					case r == 9 && c.R.Intn(20) == 0:
						t = fmt.Sprint(50 + c.R.Intn(9000))
					case r == 9 && c.R.Intn(3) == 0:
						t = ""
					default:
						t = "n" + fmt.Sprint(c.R.Intn(3))
					}
					path += "/" + t
				}
				valT := prof.Value(c.R, 2)
				sc := &SeqCase{DocText: docT, Doc: doc, Ops: []ref.Op{{Kind: "add", Path: path, Value: mustParse(valT), HasValue: true}}, OpTexts: []string{OpText("add", path, "", valT, true)}}
				e := ref.New(doc, c14Ref(o))
				if e.Step(sc.Ops[0]) == ref.OK {
					cfg := &SeqCfg{Prof: prof, MissRate: 25, RootOK: false}
					for k := c.R.Intn(5); k > 0; k-- {
						op, text := GenOp(c.R, e, cfg)
						sc.Ops = append(sc.Ops, op)
						sc.OpTexts = append(sc.OpTexts, text)
						if e.Step(op) != ref.OK {
							break
						}
					}
				}
				judgeEnsure(c, sc, o)
			}},
		},
	})
}
