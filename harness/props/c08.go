package props

import (
	"errors"
	"fmt"
	"strings"

	jp "github.com/evanphx/json-patch/v5"
	"github.com/evanphx/json-patch/v5/verifharness/core"
	"github.com/evanphx/json-patch/v5/verifharness/gen"
	jr "github.com/evanphx/json-patch/v5/verifharness/jsonref"
	ref "github.com/evanphx/json-patch/v5/verifharness/ref6902"
	"github.com/evanphx/json-patch/v5/verifharness/refenc"
)

// limitVerdict extends a reference evaluation with the copy-size limit.
// Sizes are those of the compact encoder spelling; a copied top-level null
// may count 0 or 4 bytes, hence a range.
type limitVerdict struct {
	Want      ref.Result
	Lo, Hi    []int64 // running totals after each accounted copy
	Sizes     [][2]int
	Ambiguous bool // the limit falls inside the 0-or-4 range, or the over-limit copy is also inapplicable
}

func evalWithLimit(sc *SeqCase, o V5Opts) limitVerdict {
	ro := o.Ref()
	ro.ScalarBlocksEnsure = true
	lv := limitVerdict{Want: ref.Eval(sc.Doc, sc.Ops, ro)}
	var lo, hi int64
	decided := false
	for i, cp := range lv.Want.Copies {
		sz := len(refenc.Compact(cp.Value, o.EscapeHTML))
		l, h := sz, sz
		if cp.Value.K == jr.Null {
			l = 0
		}
		if sc.CopySizes != nil {
			// sizes measured on the library's own output spelling (documents in arbitrary spelling)
			if i >= len(sc.CopySizes) || sc.CopySizes[i][1] < 0 {
				// size unknown (the copy is inapplicable for another reason): it decides nothing
				if o.Limit > 0 && !decided {
					lv.Ambiguous = true
				}
				decided = true
				lv.Lo = append(lv.Lo, lo)
				lv.Hi = append(lv.Hi, hi)
				lv.Sizes = append(lv.Sizes, [2]int{-1, -1})
				continue
			}
			l, h = sc.CopySizes[i][0], sc.CopySizes[i][1]
		}
		lo += int64(l)
		hi += int64(h)
		lv.Lo = append(lv.Lo, lo)
		lv.Hi = append(lv.Hi, hi)
		lv.Sizes = append(lv.Sizes, [2]int{l, h})
		if o.Limit <= 0 || decided {
			continue
		}
		switch {
		case lo > o.Limit:
			// this copy pushes the total over the limit
			decided = true
			if lv.Want.FailIndex == cp.Index {
				lv.Ambiguous = true // also inapplicable for another reason: either error may be reported
			} else if lv.Want.FailIndex == -1 || cp.Index < lv.Want.FailIndex {
				lv.Want.Doc = nil
				lv.Want.FailIndex = cp.Index
				lv.Want.Cause = ref.CopyLimit
			}
		case hi > o.Limit:
			// the limit falls between the two admissible sizes of a copied null
			decided = true
			lv.Ambiguous = true
		}
	}
	return lv
}

type errClass struct{ testFailed, missing, copySize bool }

func classify(err error) errClass {
	var ce *jp.AccumulatedCopySizeError
	return errClass{errors.Is(err, jp.ErrTestFailed), errors.Is(err, jp.ErrMissing), errors.As(err, &ce)}
}

func (e errClass) String() string {
	return fmt.Sprintf("ErrTestFailed=%v ErrMissing=%v AccumulatedCopySizeError=%v", e.testFailed, e.missing, e.copySize)
}

// judgeFailure checks C08 on one call.
func judgeFailure(c *core.Ctx, sc *SeqCase, o V5Opts) {
	lv := evalWithLimit(sc, o)
	want := lv.Want
	res := ApplyV5(sc.DocText, sc.Patch(), o, "")
	c.Eval(1)
	d := sc.Describe()
	d["options"] = o.String()
	d["library_error"] = errText(res.Err)
	if res.Out != nil {
		d["library_output"] = clip(string(res.Out), 500)
	}
	if want.OutOfDom != "" || lv.Ambiguous {
		c.Count("out_of_domain")
		return
	}
	if res.Panic != nil {
		d["panic"] = panicDetail(res.Panic)
		c.Violation(res.Panic.Sig(), d)
		return
	}
	if res.DecodeErr != nil {
		d["decode_error"] = res.DecodeErr.Error()
		c.Violation("decode-rejects-generated-patch", d)
		return
	}
	c.Count("in_domain")
	if want.Doc != nil {
		// a patch whose operations all succeed never returns an error
		if res.Err != nil {
			c.Violation("all-applicable-patch-errors", d)
		} else {
			c.Count("all-applicable:ok")
		}
		return
	}
	kind := sc.Ops[want.FailIndex].Kind
	d["reference"] = fmt.Sprintf("fails at operation %d (%s): %s", want.FailIndex, kind, want.Cause)
	cell := kind + "/" + want.Cause.String()
	c.Count("cell:" + cell)
	c.Nontrivial(sc.Canon(), o.String())
	if res.Err == nil {
		c.Violation("no-error-for-inapplicable-patch:"+cell, d)
		return
	}
	if res.Out != nil {
		c.Violation("document-returned-with-error:"+cell, d)
	}
	cl := classify(res.Err)
	d["library_error_classes"] = cl.String()
	if cl.testFailed != (want.Cause == ref.TestUnequal) {
		c.Violation(fmt.Sprintf("ErrTestFailed=%v-but-cause=%s", cl.testFailed, cell), d)
	}
	if cl.copySize != (want.Cause == ref.CopyLimit) {
		c.Violation(fmt.Sprintf("AccumulatedCopySizeError=%v-but-cause=%s", cl.copySize, cell), d)
	}
	needMissing := want.Cause == ref.ParentUnreachable || (want.Cause == ref.AbsentMember && kind != "test")
	if needMissing && !cl.missing {
		c.Violation("ErrMissing-absent:"+cell, d)
	}
	// H1: nothing executes after the first failing operation
	ev := res.Events
	if !ev.Begun {
		c.Inconclusive("ApplyBegin hook did not fire")
		return
	}
	if len(ev.Done) != want.FailIndex+1 {
		d["ops_executed"] = len(ev.Done)
		c.Violation("operations-executed!=first-failure+1:"+cell, d)
	} else {
		for i, e := range ev.Done {
			if e.Failed != (i == want.FailIndex) {
				d["op_events"] = ev.Done
				c.Violation("failure-reported-at-wrong-operation:"+cell, d)
				break
			}
		}
	}
	if ev.Ended {
		c.Violation("apply-reached-encoding-after-failure:"+cell, d)
	}
	c.Count("h1.calls_observed")
	// prefix consistency: operations after the failing one have no effect
	if want.FailIndex+1 < len(sc.Ops) {
		pre := &SeqCase{DocText: sc.DocText, Doc: sc.Doc, Ops: sc.Ops[:want.FailIndex+1], OpTexts: sc.OpTexts[:want.FailIndex+1]}
		r2 := ApplyV5(pre.DocText, pre.Patch(), o, "")
		c.Eval(1)
		if r2.Panic == nil && (r2.Err == nil || classify(r2.Err) != cl || r2.Err.Error() != res.Err.Error()) {
			d["prefix_error"] = errText(r2.Err)
			c.Violation("later-operations-change-the-outcome:"+cell, d)
		}
		c.Count("prefix-compared")
	}
	if c.WantSample() {
		c.Sample(d)
	}
}

func init() {
	prof := gen.Hostile().With(func(p *gen.Profile) { p.Keys = c01Keys })
	encProf := func(esc bool) *gen.Profile {
		return prof.With(func(p *gen.Profile) {
			p.WS = 0
			p.Spell = gen.SpellEncOff
			if esc {
				p.Spell = gen.SpellEncOn
			}
		})
	}
	n := func(q, t int) func(core.Tier) int {
		return func(tier core.Tier) int {
			if tier == core.Thorough {
				return t
			}
			return q
		}
	}
	core.Register(&core.Prop{
		ID:    "C08",
		Title: "A failing Apply returns nothing and says why (v5)",
		Rule: "State-directed sequences with inapplicable operations planted at any position and followed by operations that would change the outcome if they ran. The reference evaluator names the first failing operation and its cause; the library must return (nil, error) with errors.Is/As classes matching the cause, " +
			"the H1 hook must show exactly first-failure+1 operations executed, and Apply(P) must equal Apply(P[:k+1]). non-trivial = in-domain failing sequence; distinct = distinct (document, patch, options).",
		Assumptions: []string{"reference evaluator decides which operation fails first and why", "a copy that is both over the limit and otherwise inapplicable may report either error (stated domain)"},
		Setup:       setPoolMode,
		Finish:      poolFinish,
		Floors: func(t core.Tier, m *core.Merged) []string {
			out := poolFloor(m)
			cells := []string{"test/test-unequal", "remove/absent-member", "replace/absent-member", "move/absent-member", "copy/absent-member",
				"add/parent-unreachable", "remove/parent-unreachable", "replace/parent-unreachable", "move/parent-unreachable", "copy/parent-unreachable", "test/parent-unreachable",
				"add/index-range", "remove/index-range", "replace/index-range", "copy/copy-limit", "move/move-from-root", "test/index-range"}
			for _, cell := range cells {
				if m.Counts["cell:"+cell] < 20 {
					out = append(out, "cell "+cell+" hit fewer than 20 times")
				}
			}
			if m.Counts["h1.calls_observed"] == 0 {
				out = append(out, "operation-loop hooks never fired")
			}
			return out
		},
		Families: []core.Family{
			{Name: "planted-failures", Count: n(60000, 1500000), Run: func(c *core.Ctx, idx int) {
				o := V5Opts{NegIdx: c.R.Intn(2) == 0, EscapeHTML: c.R.Intn(2) == 0, AllowMissing: c.R.Intn(6) == 0, EnsurePath: c.R.Intn(8) == 0}
				cfg := &SeqCfg{Prof: prof, MinOps: 1, MaxOps: 9, MissRate: 22, RootOK: true, ContinueAfterFail: true}
				judgeFailure(c, GenSeq(c.R, cfg, o.Ref()), o)
			}},
			{Name: "mostly-failing", Count: n(20000, 400000), Run: func(c *core.Ctx, idx int) {
				o := V5Opts{NegIdx: c.R.Intn(2) == 0, EscapeHTML: true}
				cfg := &SeqCfg{Prof: prof, MinOps: 1, MaxOps: 4, MissRate: 60, RootOK: true, ContinueAfterFail: true}
				judgeFailure(c, GenSeq(c.R, cfg, o.Ref()), o)
			}},
			{Name: "copy-limit", Count: n(20000, 400000), Run: func(c *core.Ctx, idx int) {
				esc := c.R.Intn(2) == 0
				o := V5Opts{NegIdx: true, EscapeHTML: esc}
				cfg := &SeqCfg{Prof: encProf(esc), MinOps: 2, MaxOps: 8, MissRate: 8, ContinueAfterFail: true,
					Kinds: []string{"copy", "copy", "copy", "add", "move", "replace", "test", "remove"}}
				sc := GenSeq(c.R, cfg, o.Ref())
				lv := evalWithLimit(sc, o)
				// limit at a prefix total -1 / +0 / +1, or unrelated
				if len(lv.Hi) > 0 {
					t := lv.Hi[c.R.Intn(len(lv.Hi))]
					o.Limit = t + int64(c.R.Intn(3)) - 1
					if o.Limit < 0 {
						o.Limit = 0
					}
				}
				if c.R.Intn(10) == 0 {
					o.Limit = []int64{0, 1, 1000000000}[c.R.Intn(3)]
				}
				judgeFailure(c, sc, o)
			}},
			{Name: "options-value-reused-after-failures", Count: n(6000, 120000), Run: func(c *core.Ctx, idx int) {
				// one *ApplyOptions value for a history of calls, every other one failing after it has copied: the
				// next call must fail or succeed exactly as it would with an options value of its own
				reuseOpts = jp.NewApplyOptions()
				defer func() { reuseOpts = nil }()
				for k := 0; k < 4; k++ {
					esc := c.R.Intn(2) == 0
					o := V5Opts{NegIdx: true, EscapeHTML: esc}
					cfg := &SeqCfg{Prof: encProf(esc), MinOps: 2, MaxOps: 6, MissRate: 0, ContinueAfterFail: true,
						Kinds: []string{"copy", "copy", "copy", "add", "replace", "test"}}
					sc := GenSeq(c.R, cfg, o.Ref())
					if k%2 == 0 {
						sc.Ops = append(sc.Ops, ref.Op{Kind: "test", Path: "/zz/nope", Value: mustParse("1"), HasValue: true})
						sc.OpTexts = append(sc.OpTexts, OpText("test", "/zz/nope", "", "1", true))
					}
					lv := evalWithLimit(sc, o)
					if len(lv.Hi) > 0 {
						o.Limit = lv.Hi[len(lv.Hi)-1] + int64(c.R.Intn(3))
					}
					judgeFailure(c, sc, o)
				}
				c.Count("options-value-reused:histories")
			}},
			{Name: "copies-of-values-full-of-brackets", Exhaustive: true, Count: func(core.Tier) int { return 4 * 5 * 2 }, Run: func(c *core.Ctx, idx int) {
				// brackets and braces inside strings and member names are not nesting: a copy of such a value is an
				// ordinary copy (and a later operation reads the copy)
				n := []int{9999, 10000, 10001, 20001}[idx%4]
				idx /= 4
				unit := []string{"[", "{", "[{", `]`, `{"`}[idx%5]
				idx /= 5
				s := strings.Repeat(unit, n)
				q := gen.SpellString(c.R, s, gen.SpellEncOn, false)
				doc := `{"log":` + q + `,"b":0}`
				from := "/log"
				if idx == 1 {
					doc = `{"o":{` + q + `:[1]},"b":0}`
					from = "/o"
				}
				ops := []ref.Op{{Kind: "copy", From: from, Path: "/b"}, {Kind: "copy", From: "/b", Path: "/c"}, {Kind: "test", Path: "/c", Value: mustParse(doc).Resolve(from), HasValue: true}}
				texts := []string{OpText("copy", "/b", from, "", false), OpText("copy", "/c", "/b", "", false), OpText("test", "/c", "", mustParse(doc).Resolve(from).String(), true)}
				sc := &SeqCase{DocText: doc, Doc: mustParse(doc), Ops: ops, OpTexts: texts}
				judgeFailure(c, sc, V5Opts{NegIdx: true, EscapeHTML: true})
				c.Count("brackets-in-strings:cases")
			}},
			{Name: "copy-limit-any-spelling", Count: n(12000, 240000), Run: func(c *core.Ctx, idx int) {
				// documents in arbitrary spelling; copy sizes measured on the library's own output (see C12)
				sc := c12AnySeq(c)
				o := V5Opts{NegIdx: true, EscapeHTML: c.R.Intn(2) == 0}
				sizes, why := outputSpellingSizes(c, sc, o)
				if why != "" {
					c.Count("sizes-unavailable") // a deviation that C12 / C01 report
					return
				}
				sc.CopySizes = sizes
				lv := evalWithLimit(sc, o)
				if len(lv.Hi) > 0 {
					o.Limit = lv.Hi[c.R.Intn(len(lv.Hi))] + int64(c.R.Intn(3)) - 1
					if o.Limit < 0 {
						o.Limit = 0
					}
				}
				judgeFailure(c, sc, o)
			}},
		},
	})
}
