// Command jpverif is driver, worker and replayer of the runtime monitors.
//
//	jpverif run    -prop C01 -tier quick -seed 1 -dir <scratch> -evidence <file> -replays <dir> -findings <file>
//	jpverif worker (internal: one worker process)
//	jpverif replay -file <replay.json> -dir <scratch>
//	jpverif selftest
package main

import (
	"encoding/json"
	"flag"
	"fmt"
	"os"
	"os/exec"
	"path/filepath"
	"regexp"
	"runtime"
	"sort"
	"strconv"
	"strings"
	"sync"
	"sync/atomic"
	"syscall"
	"time"

	"github.com/evanphx/json-patch/v5/verifharness/core"
	"github.com/evanphx/json-patch/v5/verifharness/props"
)

func main() {
	if len(os.Args) < 2 {
		fmt.Fprintln(os.Stderr, "usage: jpverif run|worker|replay|selftest ...")
		os.Exit(2)
	}
	switch os.Args[1] {
	case "run":
		os.Exit(cmdRun(os.Args[2:]))
	case "worker":
		os.Exit(cmdWorker(os.Args[2:]))
	case "replay":
		os.Exit(cmdReplay(os.Args[2:]))
	case "selftest":
		if errs := props.SelfTest(); len(errs) > 0 {
			for _, e := range errs {
				fmt.Println("SELFTEST FAIL:", e)
			}
			os.Exit(2)
		}
		fmt.Println("selftest ok")
	case "alone":
		// alone <seed> <pool> <call>: one call of the C09/C10 call pool in a process of its own
		if len(os.Args) != 5 {
			os.Exit(2)
		}
		seed, _ := strconv.ParseInt(os.Args[2], 10, 64)
		id, _ := strconv.Atoi(os.Args[3])
		call, _ := strconv.Atoi(os.Args[4])
		os.Exit(props.RunAlone(seed, id, call))
	case "deepchain":
		// deepchain <i>: one chained-nesting-growth case of C04 in a process of its own (default stack limit)
		if len(os.Args) != 3 {
			os.Exit(2)
		}
		i, _ := strconv.Atoi(os.Args[2])
		os.Exit(props.RunDeepChain(i))
	case "stampede":
		// stampede <seed> <pool> <idx> <mode>: cold-start round of C10 in a process of its own
		if len(os.Args) != 6 {
			os.Exit(2)
		}
		seed, _ := strconv.ParseInt(os.Args[2], 10, 64)
		id, _ := strconv.Atoi(os.Args[3])
		idx, _ := strconv.Atoi(os.Args[4])
		os.Exit(props.RunStampede(seed, id, idx, os.Args[5]))
	case "racecanary":
		// a deliberate data race in harness code: proves that the race runtime is active and reporting
		var x int
		done := make(chan bool)
		go func() { x = 1; done <- true }()
		x = 2
		<-done
		fmt.Println("canary done", x)
	case "list":
		for _, id := range core.IDs() {
			fmt.Println(id)
		}
	default:
		fmt.Fprintln(os.Stderr, "unknown command", os.Args[1])
		os.Exit(2)
	}
}

// ---------------------------------------------------------------- worker

func envMap() map[string]string {
	m := map[string]string{}
	for _, kv := range os.Environ() {
		if strings.HasPrefix(kv, "JPV_") {
			i := strings.IndexByte(kv, '=')
			m[kv[4:i]] = kv[i+1:]
		}
	}
	return m
}

func cmdWorker(args []string) int {
	fs := flag.NewFlagSet("worker", flag.ExitOnError)
	var a core.WorkerArgs
	var tier, active string
	fs.StringVar(&a.Prop, "prop", "", "")
	fs.StringVar(&tier, "tier", "quick", "")
	fs.Int64Var(&a.Seed, "seed", 1, "")
	fs.IntVar(&a.Worker, "w", 0, "")
	fs.IntVar(&a.Workers, "W", 1, "")
	fs.StringVar(&a.Mode, "mode", "off", "")
	fs.StringVar(&a.Dir, "dir", "", "")
	fs.StringVar(&active, "active", "", "")
	fs.StringVar(&a.OnlyFamily, "only-family", "", "")
	fs.IntVar(&a.OnlyIndex, "only-index", 0, "")
	fs.DurationVar(&a.CaseGuard, "case-guard", 0, "")
	fs.IntVar(&a.Inc, "inc", 0, "")
	fs.IntVar(&a.ResumeFam, "resume-fam", 0, "")
	fs.IntVar(&a.ResumeIdx, "resume-idx", 0, "")
	fs.Parse(args)
	a.Tier = core.Tier(tier)
	if active != "" {
		a.Active = strings.Split(active, ",")
	}
	a.Env = envMap()
	return core.RunWorker(a)
}

// ---------------------------------------------------------------- run

type pass struct {
	name    string
	bin     string
	dir     string
	workers int
	env     []string
}

type crash struct {
	Pass, Family  string
	Worker, Index int
	Exit          string
	Tail          string
	Timeout       bool
	TimeoutAgain  bool
	RerunExit     string
}

func cmdRun(args []string) int {
	fs := flag.NewFlagSet("run", flag.ExitOnError)
	prop := fs.String("prop", "", "")
	tier := fs.String("tier", "quick", "")
	seed := fs.Int64("seed", 1, "")
	workers := fs.Int("workers", 16, "")
	dir := fs.String("dir", "", "")
	evidence := fs.String("evidence", "", "")
	replays := fs.String("replays", "", "")
	findingsPath := fs.String("findings", "", "")
	racebin := fs.String("racebin", "", "")
	fs.Parse(args)
	start := time.Now()
	p := core.Lookup(*prop)
	if p == nil {
		fmt.Printf("INCONCLUSIVE property=%s reason=unknown-property\n", *prop)
		return 2
	}
	if errs := props.SelfTest(); len(errs) > 0 {
		for _, e := range errs {
			fmt.Println("oracle self-test failed:", e)
		}
		fmt.Printf("INCONCLUSIVE property=%s reason=oracle-selftest\n", *prop)
		return 2
	}
	fnds, err := core.LoadFindings(*findingsPath)
	if err != nil {
		fmt.Printf("INCONCLUSIVE property=%s reason=known-findings-unreadable (%v)\n", *prop, err)
		return 2
	}
	var active []string
	var listed []core.Finding
	for _, f := range fnds {
		if f.AppliesTo(*prop) && f.Status == "finding" {
			active = append(active, f.ID)
			listed = append(listed, f)
		}
	}
	self, _ := os.Executable()
	passes := []pass{{name: "plain", bin: self, dir: filepath.Join(*dir, "plain"), workers: *workers}}
	if props.NeedsRace(*prop) {
		if *racebin == "" {
			fmt.Printf("INCONCLUSIVE property=%s reason=race-binary-missing\n", *prop)
			return 2
		}
		rd := filepath.Join(*dir, "race")
		// the race runtime must be active and reporting: a deliberate race in a throw-away child must be logged
		os.MkdirAll(rd, 0o755)
		can := exec.Command(*racebin, "racecanary")
		can.Env = append(os.Environ(), "GORACE=halt_on_error=0 log_path="+filepath.Join(*dir, "canary"))
		can.Run()
		cl, _ := filepath.Glob(filepath.Join(*dir, "canary*"))
		found := false
		for _, f := range cl {
			if b, _ := os.ReadFile(f); strings.Contains(string(b), "WARNING: DATA RACE") {
				found = true
			}
		}
		if !found {
			fmt.Printf("INCONCLUSIVE property=%s reason=race-detector-canary-not-reported\n", *prop)
			return 2
		}
		passes = append(passes, pass{name: "race", bin: *racebin, dir: rd, workers: *workers,
			env: []string{"GORACE=halt_on_error=0 log_path=" + rd + "/racelog", "JPV_PLAINBIN=" + self}})
	}
	var crashes []crash
	var dirs []string
	for _, ps := range passes {
		os.MkdirAll(ps.dir, 0o755)
		dirs = append(dirs, ps.dir)
		crashes = append(crashes, runPass(ps, p, *tier, *seed, active)...)
	}
	m := core.Merge(dirs)

	// race reports
	raceInfo := map[string]any{}
	if props.NeedsRace(*prop) {
		collectRaces(filepath.Join(*dir, "race"), p, m, raceInfo, *seed, core.Tier(*tier))
	}

	// crashes and time-outs
	for _, c := range crashes {
		detail := map[string]any{"pass": c.Pass, "worker": c.Worker, "exit": c.Exit, "stderr_tail": c.Tail}
		switch {
		case c.Timeout && !c.TimeoutAgain:
			// slow under load only: not a verdict
			m.Counts["case_timeouts_recovered"]++
		case c.Timeout:
			if *prop == "C04" {
				m.Violations = append(m.Violations, &core.Violation{Sig: "hang@" + c.Family, Prop: *prop, Family: c.Family, Index: c.Index, Seed: *seed, Tier: core.Tier(*tier), Detail: detail, Count: 1})
			} else {
				m.Inconcl = append(m.Inconcl, fmt.Sprintf("case %s/%d timed out twice", c.Family, c.Index))
			}
		default:
			if *prop == "C04" {
				m.Violations = append(m.Violations, &core.Violation{Sig: "crash@" + c.Family + ":" + crashSig(c.Tail), Prop: *prop, Family: c.Family, Index: c.Index, Seed: *seed, Tier: core.Tier(*tier), Detail: detail, Count: 1})
			} else {
				m.Inconcl = append(m.Inconcl, fmt.Sprintf("worker died (%s) in case %s/%d: %s", c.Exit, c.Family, c.Index, crashSig(c.Tail)))
				writeReplay(*replays, &core.Violation{Sig: "crash@" + c.Family, Prop: *prop, Family: c.Family, Index: c.Index, Seed: *seed, Tier: core.Tier(*tier), Detail: detail, Count: 1})
			}
		}
	}

	// floors: a run that observed too little is not green
	for fam, f := range m.Fam {
		if f.Cases < f.Planned && len(crashes) == 0 {
			m.Inconcl = append(m.Inconcl, fmt.Sprintf("family %s ran %d of %d planned cases", fam, f.Cases, f.Planned))
		}
	}
	if p.Floors != nil {
		m.Inconcl = append(m.Inconcl, p.Floors(core.Tier(*tier), m)...)
	}
	if m.Evals == 0 {
		m.Inconcl = append(m.Inconcl, "no evaluations")
	}

	// statement coverage of the library by this run's workload (cover builds only: thorough tier / VERIF_COVER=1)
	if cd := os.Getenv("GOCOVERDIR"); cd != "" {
		for k, v := range collectCoverage(cd, *dir, *prop) {
			raceInfo[k] = v
		}
	}

	wall := time.Since(start).Seconds()
	writeEvidence(*evidence, p, *tier, *seed, m, raceInfo, wall, listed)

	// verdict
	for _, f := range listed {
		n := int64(0)
		if k := m.Known[f.ID]; k != nil {
			n = k.Count
		}
		fmt.Printf("KNOWN-FINDING: property=%s %s: %s (observed %d times in this run)\n", *prop, f.ID, f.What, n)
	}
	exit := 0
	if len(m.Violations) > 0 {
		n := 0
		for _, v := range m.Violations {
			if n >= 20 {
				break
			}
			n++
			path := writeReplay(*replays, v)
			fmt.Printf("VIOLATION property=%s replay=%s\n", *prop, path)
			fmt.Printf("  signature: %s   (x%d, first at %s/%d, pool mode %s)\n", v.Sig, v.Count, v.Family, v.Index, v.Mode)
		}
		exit = 1
	} else if len(m.Inconcl) > 0 {
		seen := map[string]bool{}
		for _, r := range m.Inconcl {
			if seen[r] {
				continue
			}
			seen[r] = true
			if len(seen) > 10 {
				break
			}
			r = strings.ReplaceAll(r, "\n", " | ")
			if len(r) > 500 {
				r = r[:500] + "…"
			}
			fmt.Printf("INCONCLUSIVE property=%s reason=%s\n", *prop, r)
		}
		exit = 2
	}
	fmt.Printf("%s %s seed=%d: evaluations=%d distinct_nontrivial=%d violations=%d known=%d wall=%.1fs\n",
		*prop, *tier, *seed, m.Evals, m.Distinct, len(m.Violations), len(m.Known), wall)
	return exit
}

var goroutineLine = regexp.MustCompile(`(?m)^(fatal error: .*|panic: .*|runtime: .*)$`)

func crashSig(tail string) string {
	if m := goroutineLine.FindString(tail); m != "" {
		if len(m) > 100 {
			m = m[:100]
		}
		return m
	}
	return "unknown"
}

func modeFor(w int) string { return [...]string{"off", "poison", "fresh"}[w%3] }

func runPass(ps pass, p *core.Prop, tier string, seed int64, active []string) []crash {
	var mu sync.Mutex
	var crashes []crash
	var wg sync.WaitGroup
	var deaths atomic.Int32
	for w := 0; w < ps.workers; w++ {
		wg.Add(1)
		go func(w int) {
			defer wg.Done()
			inc, rf, ri := 0, 0, 0
			// A worker that died is restarted after the case that killed it, so that one defect does not
			// hide the rest; on a tree where very many cases die the exploration is cut short (it has
			// already failed): at most 6 restarts per worker and 24 deaths per pass.
			for inc < 6 && int(deaths.Load()) < 24 {
				args := []string{"worker", "-prop", p.ID, "-tier", tier, "-seed", strconv.FormatInt(seed, 10), "-w", strconv.Itoa(w), "-W", strconv.Itoa(ps.workers),
					"-mode", modeFor(w), "-dir", ps.dir, "-active", strings.Join(active, ","), "-inc", strconv.Itoa(inc), "-resume-fam", strconv.Itoa(rf), "-resume-idx", strconv.Itoa(ri)}
				st, tail := spawn(ps, args, fmt.Sprintf("%s/worker-%d.%d.log", ps.dir, w, inc), 0)
				if st == "0" {
					return
				}
				running, fam, idx, jerr := core.ReadJournal(fmt.Sprintf("%s/journal-%d.%d", ps.dir, w, inc))
				c := crash{Pass: ps.name, Worker: w, Exit: st, Tail: tail}
				if jerr != nil || !running || fam >= len(p.Families) {
					c.Family, c.Index = "?", -1
					mu.Lock()
					crashes = append(crashes, c)
					mu.Unlock()
					return
				}
				c.Family, c.Index = p.Families[fam].Name, idx
				if st == strconv.Itoa(core.ExitTimeout) {
					c.Timeout = true
					// re-run alone, in a fresh process, with five times the budget
					a2 := []string{"worker", "-prop", p.ID, "-tier", tier, "-seed", strconv.FormatInt(seed, 10), "-w", strconv.Itoa(w), "-W", strconv.Itoa(ps.workers),
						"-mode", modeFor(w), "-dir", ps.dir, "-active", strings.Join(active, ","), "-only-family", c.Family, "-only-index", strconv.Itoa(idx), "-case-guard", "600s", "-inc", strconv.Itoa(1000 + inc)}
					st2, _ := spawn(ps, a2, fmt.Sprintf("%s/rerun-%d.%d.log", ps.dir, w, inc), 0)
					c.RerunExit = st2
					c.TimeoutAgain = st2 != "0"
				}
				mu.Lock()
				crashes = append(crashes, c)
				mu.Unlock()
				deaths.Add(1)
				inc, rf, ri = inc+1, fam, idx
			}
		}(w)
	}
	wg.Wait()
	return crashes
}

func spawn(ps pass, args []string, logPath string, limit time.Duration) (status, tail string) {
	lf, err := os.Create(logPath)
	if err != nil {
		return "spawn-error", err.Error()
	}
	cmd := exec.Command(ps.bin, args...)
	cmd.Stdout, cmd.Stderr = lf, lf
	cmd.Env = append(os.Environ(), ps.env...)
	if os.Getenv("GOMEMLIMIT") == "" {
		cmd.Env = append(cmd.Env, "GOMEMLIMIT=6GiB")
	}
	cmd.SysProcAttr = &syscall.SysProcAttr{Setpgid: true}
	err = cmd.Run()
	lf.Close()
	status = "0"
	if err != nil {
		if ee, ok := err.(*exec.ExitError); ok {
			if ws, ok := ee.Sys().(syscall.WaitStatus); ok && ws.Signaled() {
				status = "signal:" + ws.Signal().String()
			} else {
				status = strconv.Itoa(ee.ExitCode())
			}
		} else {
			status = "error:" + err.Error()
		}
		b, _ := os.ReadFile(logPath)
		if len(b) > 6000 {
			b = append(append([]byte{}, b[:3000]...), b[len(b)-3000:]...)
		}
		tail = string(b)
	}
	return
}

// ---------------------------------------------------------------- library coverage

// collectCoverage merges the coverage counters the worker processes (built with
// -cover -coverpkg=<library packages>) wrote into GOCOVERDIR and reports, per
// library source file, the statements this run executed; functions that were
// never entered are listed by name. Evidence only: it decides nothing.
func collectCoverage(covDir, scratch, prop string) map[string]any {
	out := map[string]any{}
	prof := filepath.Join(scratch, "cover.txt")
	if b, err := exec.Command("go", "tool", "covdata", "textfmt", "-i="+covDir, "-o="+prof).CombinedOutput(); err != nil {
		out["library_statement_coverage"] = "unavailable: " + strings.TrimSpace(string(b))
		return out
	}
	b, err := os.ReadFile(prof)
	if err != nil {
		out["library_statement_coverage"] = "unavailable: " + err.Error()
		return out
	}
	type fc struct{ stmts, covered int }
	files := map[string]*fc{}
	for _, line := range strings.Split(string(b), "\n") {
		// file:sl.sc,el.ec numStmts count
		i := strings.LastIndex(line, ":")
		f := strings.Fields(line)
		if i < 0 || len(f) != 3 || strings.HasPrefix(line, "mode:") {
			continue
		}
		name := strings.TrimPrefix(line[:i], "github.com/evanphx/json-patch/")
		if name == line[:i] || strings.Contains(name, "verifharness") || strings.Contains(name, "verif_o") {
			continue
		}
		n, _ := strconv.Atoi(f[1])
		cnt, _ := strconv.Atoi(f[2])
		e := files[name]
		if e == nil {
			e = &fc{}
			files[name] = e
		}
		e.stmts += n
		if cnt > 0 {
			e.covered += n
		}
	}
	anchors := map[string]bool{}
	if pb, err := os.ReadFile(os.Getenv("JPV_PROPERTIES")); err == nil {
		for _, l := range strings.Split(string(pb), "\n") {
			var pr struct {
				ID      string `json:"id"`
				Anchors struct {
					Files []string `json:"files"`
				} `json:"anchors"`
			}
			if json.Unmarshal([]byte(l), &pr) == nil && pr.ID == prop {
				for _, f := range pr.Anchors.Files {
					anchors[f] = true
				}
			}
		}
	}
	per := map[string]any{}
	for name, e := range files {
		// profile names: v5/patch.go for the module, patch.go for the staged legacy package
		pct := 0.0
		if e.stmts > 0 {
			pct = float64(int(1000*float64(e.covered)/float64(e.stmts))) / 10
		}
		ent := map[string]any{"statements": e.stmts, "executed": e.covered, "percent": pct}
		if anchors[name] {
			ent["anchored_by_property"] = true
		}
		per[name] = ent
	}
	out["library_statement_coverage"] = per
	if fb, err := exec.Command("go", "tool", "covdata", "func", "-i="+covDir).Output(); err == nil {
		var never []string
		for _, line := range strings.Split(string(fb), "\n") {
			f := strings.Fields(line)
			if len(f) != 3 || f[2] != "0.0%" || !strings.HasPrefix(f[0], "github.com/evanphx/json-patch/") || strings.Contains(f[0], "verifharness") {
				continue
			}
			file := strings.TrimPrefix(f[0], "github.com/evanphx/json-patch/")
			if j := strings.Index(file, ":"); j >= 0 {
				file = file[:j]
			}
			if anchors[file] {
				never = append(never, file+":"+f[1])
			}
		}
		sort.Strings(never)
		out["anchored_functions_never_entered"] = never
	}
	return out
}

// ---------------------------------------------------------------- race logs

func collectRaces(dir string, p *core.Prop, m *core.Merged, info map[string]any, seed int64, tier core.Tier) {
	files, _ := filepath.Glob(dir + "/racelog*")
	blocks := 0
	dedup := map[string]int{}
	harnessOnly := 0
	for _, f := range files {
		b, err := os.ReadFile(f)
		if err != nil {
			m.Inconcl = append(m.Inconcl, "race log unreadable: "+f)
			continue
		}
		for _, blk := range strings.Split(string(b), "==================") {
			if !strings.Contains(blk, "WARNING: DATA RACE") {
				continue
			}
			blocks++
			sig, lib := raceSig(blk)
			if !lib {
				harnessOnly++
				continue
			}
			dedup[sig]++
			if dedup[sig] == 1 {
				if len(blk) > 6000 {
					blk = blk[:6000]
				}
				m.Violations = append(m.Violations, &core.Violation{Sig: "race:" + sig, Prop: p.ID, Family: "race-detector", Index: -1, Seed: seed, Tier: tier,
					Detail: map[string]any{"report": blk}, Count: 1})
			}
		}
	}
	if harnessOnly > 0 {
		m.Inconcl = append(m.Inconcl, fmt.Sprintf("%d race reports involve harness frames only (harness defect)", harnessOnly))
	}
	info["race_report_blocks"] = blocks
	info["race_reports_distinct"] = len(dedup)
	info["race_log_files"] = len(files)
}

var frameRe = regexp.MustCompile(`(?m)^  (\S+)\(\)\n\s+(\S+?):\d+`)

// raceSig: the pair of innermost library functions of the two stacks.
func raceSig(blk string) (string, bool) {
	parts := regexp.MustCompile(`(?m)^(WARNING: DATA RACE|Previous .* by .*:|Goroutine .* created at:)`).Split(blk, -1)
	var sites []string
	for i, st := range parts {
		if i == 0 || i > 2 {
			continue
		}
		site := ""
		for _, fm := range frameRe.FindAllStringSubmatch(st, -1) {
			fn := fm[1]
			if strings.HasPrefix(fn, "github.com/evanphx/json-patch") && !strings.Contains(fn, "verifharness") {
				site = strings.TrimPrefix(fn, "github.com/evanphx/json-patch")
				break
			}
		}
		sites = append(sites, site)
	}
	lib := false
	for _, s := range sites {
		if s != "" {
			lib = true
		}
	}
	sort.Strings(sites)
	return strings.Join(sites, "|"), lib
}

// ---------------------------------------------------------------- evidence and replay files

func writeReplay(dir string, v *core.Violation) string {
	os.MkdirAll(dir, 0o755)
	path := filepath.Join(dir, v.Prop+"-"+core.SigFile(v.Sig)+".json")
	b, err := json.MarshalIndent(v, "", " ")
	if err != nil {
		b, _ = json.MarshalIndent(map[string]any{"sig": v.Sig, "property": v.Prop, "family": v.Family, "index": v.Index, "seed": v.Seed, "tier": v.Tier, "pool_mode": v.Mode}, "", " ")
	}
	os.WriteFile(path, b, 0o644)
	return path
}

func writeEvidence(path string, p *core.Prop, tier string, seed int64, m *core.Merged, raceInfo map[string]any, wall float64, listed []core.Finding) {
	if path == "" {
		return
	}
	fams := map[string]any{}
	for k, f := range m.Fam {
		e := map[string]any{"cases": f.Cases, "planned": f.Planned, "evaluations": f.Evals, "nontrivial": f.Nontrivial, "cpu_ms": f.CPUMs, "slowest_case_ms": f.MaxMs}
		if f.Exhaustive && f.Cases == f.Planned {
			e["exhaustive"] = true
		}
		fams[k] = e
	}
	known := []any{}
	for _, f := range listed {
		n := int64(0)
		if k := m.Known[f.ID]; k != nil {
			n = k.Count
		}
		known = append(known, map[string]any{"id": f.ID, "what": f.What, "observed": n})
	}
	cov := map[string]any{
		"evaluations":          m.Evals,
		"distinct_nontrivial":  m.Distinct,
		"rule":                 p.Rule,
		"samples":              m.Samples,
		"families":             fams,
		"counts":               m.Counts,
		"pool_sanitizer_modes": m.Modes,
		"workers_completed":    m.WorkersDone,
		"known_findings":       known,
		"inconclusive":         m.Inconcl,
		"gomaxprocs":           runtime.GOMAXPROCS(0),
	}
	for k, v := range m.Extra {
		cov[k] = v
	}
	for k, v := range raceInfo {
		cov[k] = v
	}
	if len(m.Samples) == 0 {
		cov["samples"] = []any{"(no sample recorded)"}
	}
	ev := map[string]any{
		"property_id": p.ID,
		"tier":        tier,
		"seed":        seed,
		"level":       "exploration",
		"coverage":    cov,
		"assumptions": p.Assumptions,
		"wall_s":      wall,
		"violations":  len(m.Violations),
	}
	b, _ := json.MarshalIndent(ev, "", " ")
	os.MkdirAll(filepath.Dir(path), 0o755)
	os.WriteFile(path, b, 0o644)
}

func cmdReplay(args []string) int {
	fs := flag.NewFlagSet("replay", flag.ExitOnError)
	file := fs.String("file", "", "")
	dir := fs.String("dir", "", "")
	findingsPath := fs.String("findings", "", "")
	fs.Parse(args)
	b, err := os.ReadFile(*file)
	if err != nil {
		fmt.Println("cannot read replay file:", err)
		return 2
	}
	var v core.Violation
	if err := json.Unmarshal(b, &v); err != nil {
		fmt.Println("cannot parse replay file:", err)
		return 2
	}
	if v.Index < 0 {
		fmt.Println("this replay file records a whole-run observation (e.g. a race report); re-run the check instead:")
		fmt.Printf("%s\n", v.Detail["report"])
		return 2
	}
	fnds, _ := core.LoadFindings(*findingsPath)
	var active []string
	for _, f := range fnds {
		if f.AppliesTo(v.Prop) && f.Status == "finding" {
			active = append(active, f.ID)
		}
	}
	mode := v.Mode
	if mode == "" {
		mode = "off"
	}
	fmt.Printf("replaying %s %s/%d seed=%d tier=%s pool-mode=%s\n  recorded signature: %s\n", v.Prop, v.Family, v.Index, v.Seed, v.Tier, mode, v.Sig)
	os.MkdirAll(*dir, 0o755)
	self, _ := os.Executable()
	ps := pass{name: "replay", bin: self, dir: *dir}
	a := []string{"worker", "-prop", v.Prop, "-tier", string(v.Tier), "-seed", strconv.FormatInt(v.Seed, 10), "-w", "0", "-W", "1", "-mode", mode, "-dir", *dir,
		"-active", strings.Join(active, ","), "-only-family", v.Family, "-only-index", strconv.Itoa(v.Index), "-case-guard", "600s"}
	st, tail := spawn(ps, a, *dir+"/replay.log", 0)
	lb, _ := os.ReadFile(*dir + "/replay.log")
	os.Stdout.Write(lb)
	if st != "0" {
		fmt.Printf("replayed case ended the process (%s)\n%s\n", st, tail)
		fmt.Printf("VIOLATION property=%s replay=%s\n", v.Prop, *file)
		return 1
	}
	m := core.Merge([]string{*dir})
	if len(m.Violations) > 0 {
		fmt.Printf("VIOLATION property=%s replay=%s\n", v.Prop, *file)
		return 1
	}
	fmt.Println("the case now holds")
	return 0
}
