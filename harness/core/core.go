// Package core is the property-independent part of the harness: case
// derivation from (seed, property, family, index), the per-worker journal,
// statistics, violations, samples and the three-valued verdict.
package core

import (
	"encoding/binary"
	"encoding/json"
	"fmt"
	"hash/fnv"
	"math/rand"
	"os"
	"path/filepath"
	"runtime/debug"
	"sort"
	"strings"
	"sync"
	"sync/atomic"
	"syscall"
	"time"
)

type Tier string

const (
	Quick    Tier = "quick"
	Thorough Tier = "thorough"
)

// Family is one fixed list of cases. Case idx is a pure function of
// (seed, property, family, idx); Exhaustive families ignore the seed.
type Family struct {
	Name       string
	Count      func(t Tier) int
	Exhaustive bool
	Run        func(c *Ctx, idx int)
	// Guard overrides the per-case wall-clock guard (default 120 s) for
	// families whose cases are legitimately slow.
	Guard time.Duration
	// Serial families run in one worker only (worker 0), e.g. because they
	// change package-level variables of the library or spawn their own
	// processes.
	Serial bool
}

type Prop struct {
	ID          string
	Title       string
	Rule        string // how cases are generated and what makes one non-trivial
	Assumptions []string
	Families    []Family
	// Floors returns the reasons (if any) for which a finished run must be
	// called inconclusive: a run that observed too little is not green.
	Floors func(t Tier, m *Merged) []string
	// Setup runs once per worker before any case.
	Setup func(c *Ctx)
	// Finish runs once per worker after all cases (quiescent-point checks).
	Finish func(c *Ctx)
}

var registry = map[string]*Prop{}

func Register(p *Prop) {
	if _, dup := registry[p.ID]; dup {
		panic("duplicate property " + p.ID)
	}
	registry[p.ID] = p
}

func Lookup(id string) *Prop { return registry[id] }

func IDs() []string {
	var ids []string
	for id := range registry {
		ids = append(ids, id)
	}
	sort.Strings(ids)
	return ids
}

// ---------------------------------------------------------------- PRNG

type splitmix struct{ s uint64 }

func (s *splitmix) Uint64() uint64 {
	s.s += 0x9e3779b97f4a7c15
	z := s.s
	z = (z ^ (z >> 30)) * 0xbf58476d1ce4e5b9
	z = (z ^ (z >> 27)) * 0x94d049bb133111eb
	return z ^ (z >> 31)
}
func (s *splitmix) Int63() int64    { return int64(s.Uint64() >> 1) }
func (s *splitmix) Seed(seed int64) { s.s = uint64(seed) }

func Hash64(parts ...string) uint64 {
	h := fnv.New64a()
	for _, p := range parts {
		h.Write([]byte(p))
		h.Write([]byte{0})
	}
	return h.Sum64()
}

// NewRand returns a PRNG determined by the given key only.
func NewRand(seed int64, prop, family string, idx int) *rand.Rand {
	k := Hash64(prop, family) ^ (uint64(seed) * 0x9e3779b97f4a7c15) ^ (uint64(idx)+1)*0xd1342543de82ef95
	sm := &splitmix{s: k}
	sm.Uint64()
	return rand.New(sm)
}

// ---------------------------------------------------------------- violations

type Violation struct {
	Sig    string         `json:"sig"`
	Prop   string         `json:"property"`
	Family string         `json:"family"`
	Index  int            `json:"index"`
	Seed   int64          `json:"seed"`
	Tier   Tier           `json:"tier"`
	Mode   string         `json:"pool_mode,omitempty"`
	Detail map[string]any `json:"detail"`
	Count  int64          `json:"count"`
}

type KnownHit struct {
	ID      string         `json:"id"`
	Count   int64          `json:"count"`
	Example map[string]any `json:"example,omitempty"`
}

// ---------------------------------------------------------------- stats

type FamStat struct {
	Cases      int64 `json:"cases"`
	Evals      int64 `json:"evaluations"`
	Nontrivial int64 `json:"nontrivial"`
	Exhaustive bool  `json:"exhaustive,omitempty"`
	Planned    int64 `json:"planned"`
	CPUMs      int64 `json:"cpu_ms"` // summed wall time of the cases (over all workers)
	MaxMs      int64 `json:"slowest_case_ms"`
	cpuUs      int64
}

type Stats struct {
	Worker     int                  `json:"worker"`
	Mode       string               `json:"pool_mode"`
	Evals      int64                `json:"evaluations"`
	Counts     map[string]int64     `json:"counts"`
	Fam        map[string]*FamStat  `json:"families"`
	Samples    map[string][]any     `json:"samples"`
	Violations []*Violation         `json:"violations"`
	Known      map[string]*KnownHit `json:"known"`
	Inconcl    []string             `json:"inconclusive"`
	Done       bool                 `json:"done"`
	WallS      float64              `json:"wall_s"`
	Extra      map[string]any       `json:"extra,omitempty"`
}

// Ctx is handed to every case.
type Ctx struct {
	Prop    *Prop
	Tier    Tier
	Seed    int64
	Worker  int
	Workers int
	Mode    string // pool sanitizer mode of this worker: off | poison | fresh
	Dir     string // scratch directory of this run
	Env     map[string]string

	Family string
	Index  int
	R      *rand.Rand

	st         *Stats
	mu         sync.Mutex
	hashes     map[uint64]struct{}
	journal    []byte
	inc        int
	lastFlush  time.Time
	famIdx     map[string]int
	caseStart  atomic.Int64
	famGuard   atomic.Int64
	active     map[string]bool // ids of known findings with status "finding"
	replayMode bool
	dirty      bool
	start      time.Time
}

const maxViolationsPerWorker = 40
const samplesPerFamily = 3

func (c *Ctx) Eval(n int) {
	c.mu.Lock()
	c.st.Evals += int64(n)
	if f := c.st.Fam[c.Family]; f != nil {
		f.Evals += int64(n)
	}
	c.mu.Unlock()
}

func (c *Ctx) Count(key string) { c.CountN(key, 1) }

func (c *Ctx) CountN(key string, n int64) {
	c.mu.Lock()
	c.st.Counts[key] += n
	c.mu.Unlock()
}

// Nontrivial records one case that satisfies the property's non-triviality
// rule; canon is the canonical text of the case (hashed for the distinct count).
func (c *Ctx) Nontrivial(canon ...string) {
	h := Hash64(canon...)
	c.mu.Lock()
	c.hashes[h] = struct{}{}
	if f := c.st.Fam[c.Family]; f != nil {
		f.Nontrivial++
	}
	c.mu.Unlock()
}

func (c *Ctx) Sample(v any) {
	c.mu.Lock()
	if len(c.st.Samples[c.Family]) < samplesPerFamily {
		c.st.Samples[c.Family] = append(c.st.Samples[c.Family], v)
	}
	c.mu.Unlock()
}

func (c *Ctx) WantSample() bool {
	c.mu.Lock()
	defer c.mu.Unlock()
	return len(c.st.Samples[c.Family]) < samplesPerFamily
}

func (c *Ctx) SetExtra(k string, v any) {
	c.mu.Lock()
	if c.st.Extra == nil {
		c.st.Extra = map[string]any{}
	}
	c.st.Extra[k] = v
	c.mu.Unlock()
}

func (c *Ctx) Inconclusive(reason string) {
	c.mu.Lock()
	if len(c.st.Inconcl) < 20 {
		c.st.Inconcl = append(c.st.Inconcl, reason)
	}
	c.mu.Unlock()
}

// FindingActive tells whether known finding id is listed with status "finding".
func (c *Ctx) FindingActive(id string) bool { return c.active[id] }

// Violation records a violation of the property. sig identifies the kind of
// violation (used for de-duplication); candidates are ids of known-finding
// matchers that matched this very case — if one of them is listed as a
// finding the violation is counted under it instead.
func (c *Ctx) Violation(sig string, detail map[string]any, candidates ...string) {
	c.mu.Lock()
	defer c.mu.Unlock()
	for _, id := range candidates {
		if c.active[id] {
			k := c.st.Known[id]
			if k == nil {
				k = &KnownHit{ID: id, Example: detail}
				c.st.Known[id] = k
			}
			k.Count++
			return
		}
	}
	c.st.Counts["violations"]++
	for _, v := range c.st.Violations {
		if v.Sig == sig {
			v.Count++
			return
		}
	}
	if len(c.st.Violations) >= maxViolationsPerWorker {
		return
	}
	if detail == nil {
		detail = map[string]any{}
	}
	c.st.Violations = append(c.st.Violations, &Violation{
		Sig: sig, Prop: c.Prop.ID, Family: c.Family, Index: c.Index, Seed: c.Seed, Tier: c.Tier, Mode: c.Mode,
		Detail: detail, Count: 1,
	})
	c.dirty = true // written to disk right after this case: a later death of the process must not lose it
	if c.replayMode {
		b, _ := json.MarshalIndent(detail, "  ", "  ")
		fmt.Printf("  violation %s\n  %s\n", sig, b)
	}
}

// Trace prints the inputs of a case when it is being replayed (before the
// library is called, so that they are on record even if the process dies).
func (c *Ctx) Trace(format string, args ...any) {
	if c.replayMode {
		fmt.Printf("  "+format+"\n", args...)
		os.Stdout.Sync()
	}
}

func (c *Ctx) NViolations() int {
	c.mu.Lock()
	defer c.mu.Unlock()
	return len(c.st.Violations)
}

// ---------------------------------------------------------------- journal

// The journal is a MAP_SHARED page: storing the current (family, index) costs
// two memory writes and survives any death of the process.
func openJournal(path string) ([]byte, error) {
	f, err := os.OpenFile(path, os.O_RDWR|os.O_CREATE|os.O_TRUNC, 0o644)
	if err != nil {
		return nil, err
	}
	defer f.Close()
	if err := f.Truncate(4096); err != nil {
		return nil, err
	}
	return syscall.Mmap(int(f.Fd()), 0, 4096, syscall.PROT_READ|syscall.PROT_WRITE, syscall.MAP_SHARED)
}

func (c *Ctx) journalSet(fam, idx int, running bool) {
	if c.journal == nil {
		return
	}
	binary.LittleEndian.PutUint64(c.journal[8:], uint64(fam))
	binary.LittleEndian.PutUint64(c.journal[16:], uint64(idx))
	r := uint64(0)
	if running {
		r = 1
	}
	binary.LittleEndian.PutUint64(c.journal[0:], r)
}

// ReadJournal returns the case the worker was running when it died.
func ReadJournal(path string) (running bool, fam, idx int, err error) {
	b, err := os.ReadFile(path)
	if err != nil || len(b) < 24 {
		return false, 0, 0, fmt.Errorf("journal unreadable: %v", err)
	}
	return binary.LittleEndian.Uint64(b[0:]) == 1, int(binary.LittleEndian.Uint64(b[8:])), int(binary.LittleEndian.Uint64(b[16:])), nil
}

// ---------------------------------------------------------------- worker

type WorkerArgs struct {
	Prop    string
	Tier    Tier
	Seed    int64
	Worker  int
	Workers int
	Mode    string
	Dir     string
	Active  []string
	Env     map[string]string
	// Only: run exactly this case (replay / re-run alone); Family=="" means all.
	OnlyFamily string
	OnlyIndex  int
	CaseGuard  time.Duration
	// Resume: this is incarnation Inc of the worker; skip everything up to and
	// including case (ResumeFam, ResumeIdx), which killed the previous one.
	Inc       int
	ResumeFam int
	ResumeIdx int
}

const ExitTimeout = 3

func newCtx(p *Prop, a WorkerArgs) *Ctx {
	c := &Ctx{Prop: p, Tier: a.Tier, Seed: a.Seed, Worker: a.Worker, Workers: a.Workers, Mode: a.Mode, Dir: a.Dir, Env: a.Env,
		hashes: map[uint64]struct{}{}, active: map[string]bool{}, famIdx: map[string]int{}}
	c.st = &Stats{Worker: a.Worker, Mode: a.Mode, Counts: map[string]int64{}, Fam: map[string]*FamStat{}, Samples: map[string][]any{}, Known: map[string]*KnownHit{}}
	for _, id := range a.Active {
		c.active[id] = true
	}
	for i, f := range p.Families {
		c.famIdx[f.Name] = i
	}
	return c
}

func (c *Ctx) runCase(f *Family, fi, idx int) {
	c.Family, c.Index = f.Name, idx
	c.R = NewRand(c.Seed, c.Prop.ID, f.Name, idx)
	if f.Exhaustive {
		c.R = NewRand(0, c.Prop.ID, f.Name, idx)
	}
	c.journalSet(fi, idx, true)
	c.famGuard.Store(int64(f.Guard))
	c.caseStart.Store(time.Now().UnixNano())
	fs := c.st.Fam[f.Name]
	fs.Cases++
	func() {
		defer func() {
			if p := recover(); p != nil {
				// A panic that reaches this point escaped the property's own
				// monitors: that is a harness defect, never a verdict.
				c.Inconclusive(fmt.Sprintf("harness panic in %s/%d: %v\n%s", f.Name, idx, p, trimStack(debug.Stack())))
			}
		}()
		f.Run(c, idx)
	}()
	if s := c.caseStart.Load(); s != 0 {
		us := (time.Now().UnixNano() - s) / 1000
		fs.cpuUs += us
		fs.CPUMs = fs.cpuUs / 1000
		if us/1000 > fs.MaxMs {
			fs.MaxMs = us / 1000
		}
	}
	c.caseStart.Store(0)
	c.journalSet(fi, idx, false)
	c.mu.Lock()
	dirty := c.dirty
	c.dirty = false
	c.mu.Unlock()
	if dirty && !c.replayMode {
		c.flush(c.start, false)
	}
}

func trimStack(b []byte) string {
	s := string(b)
	if len(s) > 3000 {
		s = s[:3000]
	}
	return s
}

// RunWorker executes this worker's share of the property's families and
// writes stats-<w>.json and hashes-<w>.bin into a.Dir.
func RunWorker(a WorkerArgs) int {
	p := Lookup(a.Prop)
	if p == nil {
		fmt.Fprintln(os.Stderr, "unknown property", a.Prop)
		return 2
	}
	c := newCtx(p, a)
	c.inc = a.Inc
	// Unbounded recursion ends in "fatal error: stack overflow" whatever the limit is; a smaller limit
	// than Go's default of 1 GB only makes that end come sooner and cheaper (16 workers run in parallel).
	// The deepest legitimate recursion (10 000 nesting levels) needs well under 100 MB.
	debug.SetMaxStack(384 << 20)
	start := time.Now()
	c.start = start
	c.lastFlush = start
	if a.OnlyFamily == "" {
		j, err := openJournal(fmt.Sprintf("%s/journal-%d.%d", a.Dir, a.Worker, a.Inc))
		if err != nil {
			fmt.Fprintln(os.Stderr, "journal:", err)
			return 2
		}
		c.journal = j
	} else {
		c.replayMode = true
	}
	guard := a.CaseGuard
	if guard == 0 {
		guard = 120 * time.Second
	}
	// Per-case wall-clock guard. Its firing is not a verdict: the driver
	// re-runs the case alone with a larger budget.
	go func() {
		for {
			time.Sleep(500 * time.Millisecond)
			s := c.caseStart.Load()
			g := guard
			if fg := time.Duration(c.famGuard.Load()); fg > 0 && a.CaseGuard == 0 {
				g = fg
			}
			if s != 0 && time.Since(time.Unix(0, s)) > g {
				fmt.Fprintf(os.Stderr, "CASE-TIMEOUT family=%s index=%d guard=%s\n", c.Family, c.Index, g)
				c.flush(start, false)
				os.Exit(ExitTimeout)
			}
		}
	}()
	for _, f := range p.Families {
		c.st.Fam[f.Name] = &FamStat{Exhaustive: f.Exhaustive}
	}
	if p.Setup != nil {
		c.Family = "setup"
		p.Setup(c)
	}
	for fi := range p.Families {
		f := &p.Families[fi]
		n := f.Count(a.Tier)
		c.st.Fam[f.Name].Planned = int64(n)
		if a.OnlyFamily != "" {
			if f.Name == a.OnlyFamily {
				c.runCase(f, fi, a.OnlyIndex)
			}
			continue
		}
		first, step := a.Worker, a.Workers
		if f.Serial {
			if a.Worker != 0 {
				continue
			}
			first, step = 0, 1
		}
		if a.Inc > 0 {
			if fi < a.ResumeFam {
				continue
			}
			if fi == a.ResumeFam {
				for first <= a.ResumeIdx {
					first += step
				}
			}
		}
		for idx := first; idx < n; idx += step {
			c.runCase(f, fi, idx)
			if idx&63 == 0 && time.Since(c.lastFlush) > 4*time.Second {
				c.flush(start, false)
				c.lastFlush = time.Now()
			}
		}
	}
	if p.Finish != nil {
		c.Family = "finish"
		p.Finish(c)
	}
	c.flush(start, true)
	return 0
}

func (c *Ctx) flush(start time.Time, done bool) {
	c.mu.Lock()
	defer c.mu.Unlock()
	c.st.Done = done
	c.st.WallS = time.Since(start).Seconds()
	b, err := json.Marshal(c.st)
	if err != nil {
		// samples/details must always be encodable; fall back without them
		c.st.Samples = nil
		c.st.Inconcl = append(c.st.Inconcl, "stats not encodable: "+err.Error())
		b, _ = json.Marshal(c.st)
	}
	writeAtomic(fmt.Sprintf("%s/stats-%d.%d.json", c.Dir, c.Worker, c.inc), b)
	hb := make([]byte, 0, 8*len(c.hashes))
	for h := range c.hashes {
		hb = binary.LittleEndian.AppendUint64(hb, h)
	}
	writeAtomic(fmt.Sprintf("%s/hashes-%d.%d.bin", c.Dir, c.Worker, c.inc), hb)
}

func writeAtomic(path string, b []byte) {
	tmp := path + ".tmp"
	if os.WriteFile(tmp, b, 0o644) == nil {
		os.Rename(tmp, path)
	}
}

// ---------------------------------------------------------------- merge

type Merged struct {
	Evals       int64
	Distinct    int64
	Counts      map[string]int64
	Fam         map[string]*FamStat
	Samples     []any
	Violations  []*Violation
	Known       map[string]*KnownHit
	Inconcl     []string
	Modes       map[string]int
	Extra       map[string]any
	WorkersDone int
}

func Merge(dirs []string) *Merged {
	m := &Merged{Counts: map[string]int64{}, Fam: map[string]*FamStat{}, Known: map[string]*KnownHit{}, Modes: map[string]int{}, Extra: map[string]any{}}
	var all []uint64
	bySig := map[string]*Violation{}
	var files []string
	for _, d := range dirs {
		g, _ := filepath.Glob(d + "/stats-*.json")
		sort.Strings(g)
		files = append(files, g...)
	}
	for w, file := range files {
		b, err := os.ReadFile(file)
		if err != nil {
			continue
		}
		var st Stats
		if err := json.Unmarshal(b, &st); err != nil {
			m.Inconcl = append(m.Inconcl, fmt.Sprintf("worker %d stats unreadable: %v", w, err))
			continue
		}
		if st.Done {
			m.WorkersDone++
		}
		m.Modes[st.Mode]++
		m.Evals += st.Evals
		for k, v := range st.Counts {
			m.Counts[k] += v
		}
		for k, v := range st.Fam {
			f := m.Fam[k]
			if f == nil {
				f = &FamStat{Exhaustive: v.Exhaustive, Planned: v.Planned}
				m.Fam[k] = f
			}
			f.Cases += v.Cases
			f.Evals += v.Evals
			f.Nontrivial += v.Nontrivial
			f.CPUMs += v.CPUMs
			if v.MaxMs > f.MaxMs {
				f.MaxMs = v.MaxMs
			}
			if v.Planned > f.Planned {
				f.Planned = v.Planned
			}
		}
		var fams []string
		for k := range st.Samples {
			fams = append(fams, k)
		}
		sort.Strings(fams)
		for _, k := range fams {
			if w == 0 || len(m.Samples) < 12 {
				for _, s := range st.Samples[k] {
					if len(m.Samples) < 40 {
						m.Samples = append(m.Samples, map[string]any{"family": k, "case": s})
					}
				}
			}
		}
		for _, v := range st.Violations {
			if o := bySig[v.Sig]; o != nil {
				o.Count += v.Count
				continue
			}
			bySig[v.Sig] = v
			m.Violations = append(m.Violations, v)
		}
		for id, k := range st.Known {
			if o := m.Known[id]; o != nil {
				o.Count += k.Count
			} else {
				m.Known[id] = k
			}
		}
		m.Inconcl = append(m.Inconcl, st.Inconcl...)
		for k, v := range st.Extra {
			// numeric extras are summed, others keep the first value
			if f, ok := v.(float64); ok {
				if o, ok2 := m.Extra[k].(float64); ok2 {
					m.Extra[k] = o + f
				} else {
					m.Extra[k] = f
				}
			} else if _, have := m.Extra[k]; !have {
				m.Extra[k] = v
			}
		}
		hb, _ := os.ReadFile(strings.Replace(strings.TrimSuffix(file, ".json"), "stats-", "hashes-", 1) + ".bin")
		for i := 0; i+8 <= len(hb); i += 8 {
			all = append(all, binary.LittleEndian.Uint64(hb[i:]))
		}
	}
	sort.Slice(all, func(i, j int) bool { return all[i] < all[j] })
	var prev uint64
	for i, h := range all {
		if i == 0 || h != prev {
			m.Distinct++
		}
		prev = h
	}
	sort.Slice(m.Violations, func(i, j int) bool { return m.Violations[i].Sig < m.Violations[j].Sig })
	return m
}

func SigFile(sig string) string {
	h := Hash64(sig)
	clean := strings.Map(func(r rune) rune {
		if (r >= 'a' && r <= 'z') || (r >= 'A' && r <= 'Z') || (r >= '0' && r <= '9') || r == '-' {
			return r
		}
		return '_'
	}, sig)
	if len(clean) > 48 {
		clean = clean[:48]
	}
	return fmt.Sprintf("%s-%08x", clean, uint32(h))
}
