//go:build !race

package core

// RaceBuild is true when the harness was built with the race detector.
const RaceBuild = false
