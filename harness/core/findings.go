package core

import (
	"bufio"
	"encoding/json"
	"fmt"
	"os"
	"strings"
)

// Finding is one line of /verif/known_findings.jsonl. The file is committed
// and never written at run time.
type Finding struct {
	ID         string         `json:"id"`
	Properties []string       `json:"properties"`
	Status     string         `json:"status"` // "finding" | "fixed"
	Commit     string         `json:"commit,omitempty"`
	Kind       string         `json:"kind"`
	Match      map[string]any `json:"match,omitempty"`
	Witness    map[string]any `json:"witness,omitempty"`
	What       string         `json:"what"`
}

func LoadFindings(path string) ([]Finding, error) {
	f, err := os.Open(path)
	if err != nil {
		if os.IsNotExist(err) {
			return nil, nil
		}
		return nil, err
	}
	defer f.Close()
	var out []Finding
	sc := bufio.NewScanner(f)
	sc.Buffer(make([]byte, 1<<20), 1<<20)
	ln := 0
	for sc.Scan() {
		ln++
		t := strings.TrimSpace(sc.Text())
		if t == "" || strings.HasPrefix(t, "#") {
			continue
		}
		var fd Finding
		if err := json.Unmarshal([]byte(t), &fd); err != nil {
			return nil, fmt.Errorf("known_findings line %d: %v", ln, err)
		}
		out = append(out, fd)
	}
	return out, sc.Err()
}

func (f *Finding) AppliesTo(prop string) bool {
	for _, p := range f.Properties {
		if p == prop {
			return true
		}
	}
	return false
}
