// Package ref7396 is a reference implementation of RFC 7396 (JSON Merge
// Patch) on jsonref trees: MergePatch as in the RFC's pseudo-code, a reference
// diff, the minimality predicate for CreateMergePatch and the composition of
// two merge patches.
package ref7396

import (
	jr "github.com/evanphx/json-patch/v5/verifharness/jsonref"
)

// Merge is RFC 7396 section 2, literally. target may be nil (absent).
// Member order: surviving members keep their order, new members are appended
// in the order of the patch.
func Merge(target, patch *jr.Value) *jr.Value {
	if patch.K != jr.Obj {
		return patch.Clone()
	}
	if target == nil || target.K != jr.Obj {
		target = &jr.Value{K: jr.Obj}
	} else {
		target = target.Clone()
	}
	for i, k := range patch.Keys {
		v := patch.Vals[i]
		_, idx := target.Get(k)
		if v.K == jr.Null {
			if idx >= 0 {
				target.Keys = append(target.Keys[:idx:idx], target.Keys[idx+1:]...)
				target.Vals = append(target.Vals[:idx:idx], target.Vals[idx+1:]...)
			}
			continue
		}
		var cur *jr.Value
		if idx >= 0 {
			cur = target.Vals[idx]
		}
		nv := Merge(cur, v)
		if idx >= 0 {
			target.Vals[idx] = nv
		} else {
			target.Keys = append(target.Keys, k)
			target.Vals = append(target.Vals, nv)
		}
	}
	return target
}

// Diff returns a minimal merge patch turning object a into object b
// (b must not contain null members for the result to be exact).
func Diff(a, b *jr.Value) *jr.Value {
	p := &jr.Value{K: jr.Obj}
	for i, k := range b.Keys {
		bv := b.Vals[i]
		av, _ := a.Get(k)
		switch {
		case av == nil:
			p.Keys = append(p.Keys, k)
			p.Vals = append(p.Vals, bv.Clone())
		case av.K == jr.Obj && bv.K == jr.Obj:
			d := Diff(av, bv)
			if len(d.Keys) > 0 {
				p.Keys = append(p.Keys, k)
				p.Vals = append(p.Vals, d)
			}
		case !jr.Equal(av, bv, jr.EqMode{}):
			p.Keys = append(p.Keys, k)
			p.Vals = append(p.Vals, bv.Clone())
		}
	}
	for _, k := range a.Keys {
		if bv, _ := b.Get(k); bv == nil {
			p.Keys = append(p.Keys, k)
			p.Vals = append(p.Vals, &jr.Value{K: jr.Null})
		}
	}
	return p
}

// Minimal checks the minimality clauses of CreateMergePatch for patch p
// between objects a and b; it returns "" or the reason p is not minimal.
func Minimal(p, a, b *jr.Value) string {
	if p.K != jr.Obj {
		return "patch is not an object"
	}
	for i, k := range p.Keys {
		pv := p.Vals[i]
		av, _ := a.Get(k)
		bv, _ := b.Get(k)
		if pv.K == jr.Null {
			removal := av != nil && bv == nil
			explicitNull := bv != nil && bv.K == jr.Null && (av == nil || av.K != jr.Null)
			if !removal && !explicitNull {
				return "null for member " + k + " that is neither removed nor set to null"
			}
			continue
		}
		if bv == nil {
			return "member " + k + " mentioned but absent from target"
		}
		if pv.K == jr.Obj && av != nil && av.K == jr.Obj && bv.K == jr.Obj {
			if len(pv.Keys) == 0 {
				return "empty nested diff emitted for " + k
			}
			if r := Minimal(pv, av, bv); r != "" {
				return k + "/" + r
			}
			continue
		}
		if av != nil && jr.Equal(av, bv, jr.EqMode{}) {
			return "member " + k + " mentioned although equal in both"
		}
		if !jr.Equal(pv, bv, jr.EqMode{}) {
			return "member " + k + " does not carry the target's value"
		}
	}
	// removed members must appear as null
	for _, k := range a.Keys {
		if bv, _ := b.Get(k); bv == nil {
			if pv, _ := p.Get(k); pv == nil || pv.K != jr.Null {
				return "removed member " + k + " not present as null"
			}
		}
	}
	return ""
}

// Compatible: wherever p2 holds an object, p1 holds an object or nothing at that path.
func Compatible(p1, p2 *jr.Value) bool {
	if p2.K != jr.Obj {
		return true
	}
	if p1.K != jr.Obj {
		return false
	}
	for i, k := range p2.Keys {
		v2 := p2.Vals[i]
		if v2.K != jr.Obj {
			continue
		}
		v1, _ := p1.Get(k)
		if v1 == nil {
			continue
		}
		if v1.K != jr.Obj {
			return false
		}
		if !Compatible(v1, v2) {
			return false
		}
	}
	return true
}

// Compose is the reference combination of two merge patches: deletions of
// both are kept, the later value wins, a non-object p2 is returned as is.
func Compose(p1, p2 *jr.Value) *jr.Value {
	if p2.K != jr.Obj {
		return p2.Clone()
	}
	if p1.K != jr.Obj {
		return p2.Clone()
	}
	out := p1.Clone()
	for i, k := range p2.Keys {
		v2 := p2.Vals[i]
		v1, idx := out.Get(k)
		var nv *jr.Value
		if v1 != nil && v1.K == jr.Obj && v2.K == jr.Obj {
			nv = Compose(v1, v2)
		} else {
			nv = v2.Clone()
		}
		if idx >= 0 {
			out.Vals[idx] = nv
		} else {
			out.Keys = append(out.Keys, k)
			out.Vals = append(out.Vals, nv)
		}
	}
	return out
}

// NullUnderArray reports an object with a null member somewhere beneath an array.
func NullUnderArray(v *jr.Value, under bool) bool {
	switch v.K {
	case jr.Obj:
		for _, e := range v.Vals {
			if (under && e.K == jr.Null) || NullUnderArray(e, under) {
				return true
			}
		}
	case jr.Arr:
		for _, e := range v.A {
			if NullUnderArray(e, true) {
				return true
			}
		}
	}
	return false
}

// StripNullsUnderArrays deletes null members of objects that lie beneath an array.
func StripNullsUnderArrays(v *jr.Value, under bool) *jr.Value {
	c := *v
	switch v.K {
	case jr.Obj:
		c.Keys, c.Vals = nil, nil
		for i, e := range v.Vals {
			if under && e.K == jr.Null {
				continue
			}
			c.Keys = append(c.Keys, v.Keys[i])
			c.Vals = append(c.Vals, StripNullsUnderArrays(e, under))
		}
	case jr.Arr:
		c.A = make([]*jr.Value, len(v.A))
		for i, e := range v.A {
			c.A[i] = StripNullsUnderArrays(e, true)
		}
	}
	return &c
}
