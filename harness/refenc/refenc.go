// Package refenc is an independent implementation of the spelling rules the
// library's encoder follows: string spelling with and without HTML escaping,
// the compact form of a value and the Indent layout.
package refenc

import (
	"strings"
	"unicode/utf8"

	jr "github.com/evanphx/json-patch/v5/verifharness/jsonref"
)

const hexd = "0123456789abcdef"

// String spells s the way the encoder does (Go <= 1.21 vintage: \u0008 and
// \u000c, not \b and \f).
func String(s string, escapeHTML bool) string {
	var sb strings.Builder
	sb.WriteByte('"')
	for i := 0; i < len(s); {
		b := s[i]
		if b < utf8.RuneSelf {
			switch {
			case b == '"' || b == '\\':
				sb.WriteByte('\\')
				sb.WriteByte(b)
			case b == '\n':
				sb.WriteString(`\n`)
			case b == '\r':
				sb.WriteString(`\r`)
			case b == '\t':
				sb.WriteString(`\t`)
			case b < 0x20, escapeHTML && (b == '<' || b == '>' || b == '&'):
				sb.WriteString(`\u00`)
				sb.WriteByte(hexd[b>>4])
				sb.WriteByte(hexd[b&0xf])
			default:
				sb.WriteByte(b)
			}
			i++
			continue
		}
		c, size := utf8.DecodeRuneInString(s[i:])
		switch {
		case c == utf8.RuneError && size == 1:
			sb.WriteString(`\ufffd`)
		case c == 0x2028:
			sb.WriteString(`\u2028`)
		case c == 0x2029:
			sb.WriteString(`\u2029`)
		default:
			sb.WriteString(s[i : i+size])
		}
		i += size
	}
	sb.WriteByte('"')
	return sb.String()
}

// EscapeRaw applies to an already spelled JSON text what the encoder's
// compaction of raw messages does when HTML escaping is on: <, >, & and
// U+2028/U+2029 are replaced by \u escapes, everything else is kept.
func EscapeRaw(raw string) string {
	var sb strings.Builder
	for i := 0; i < len(raw); i++ {
		c := raw[i]
		switch {
		case c == '<' || c == '>' || c == '&':
			sb.WriteString(`\u00`)
			sb.WriteByte(hexd[c>>4])
			sb.WriteByte(hexd[c&0xf])
		case c == 0xE2 && i+2 < len(raw) && raw[i+1] == 0x80 && raw[i+2]&^1 == 0xA8:
			sb.WriteString(`\u202`)
			sb.WriteByte(hexd[raw[i+2]&0xf])
			i += 2
		default:
			sb.WriteByte(c)
		}
	}
	return sb.String()
}

// Compact spells v in the encoder's compact form. Strings that still carry
// their raw token keep it (values the library copies through verbatim), with
// EscapeRaw applied when escapeHTML is on; member names are always re-spelled
// because the library decodes and re-encodes them.
func Compact(v *jr.Value, escapeHTML bool) string {
	var sb strings.Builder
	compact(&sb, v, escapeHTML)
	return sb.String()
}

func compact(sb *strings.Builder, v *jr.Value, esc bool) {
	switch v.K {
	case jr.Null:
		sb.WriteString("null")
	case jr.Bool:
		if v.B {
			sb.WriteString("true")
		} else {
			sb.WriteString("false")
		}
	case jr.Num:
		sb.WriteString(v.Lit)
	case jr.Str:
		switch {
		case v.Raw != "" && esc:
			sb.WriteString(EscapeRaw(v.Raw))
		case v.Raw != "":
			sb.WriteString(v.Raw)
		default:
			sb.WriteString(String(v.S, esc))
		}
	case jr.Arr:
		sb.WriteByte('[')
		for i, e := range v.A {
			if i > 0 {
				sb.WriteByte(',')
			}
			compact(sb, e, esc)
		}
		sb.WriteByte(']')
	case jr.Obj:
		sb.WriteByte('{')
		for i, k := range v.Keys {
			if i > 0 {
				sb.WriteByte(',')
			}
			sb.WriteString(String(k, esc))
			sb.WriteByte(':')
			compact(sb, v.Vals[i], esc)
		}
		sb.WriteByte('}')
	}
}

// Indent lays out a compact, valid JSON text the way json.Indent does with an
// empty prefix: every element on its own line, "key": value, empty containers
// closed immediately.
func Indent(compact string, indent string) string {
	var sb strings.Builder
	depth := 0
	inStr := false
	needIndent := false
	nl := func() {
		sb.WriteByte('\n')
		for i := 0; i < depth; i++ {
			sb.WriteString(indent)
		}
	}
	for i := 0; i < len(compact); i++ {
		c := compact[i]
		if inStr {
			sb.WriteByte(c)
			if c == '\\' {
				i++
				sb.WriteByte(compact[i])
			} else if c == '"' {
				inStr = false
			}
			continue
		}
		if c == ' ' || c == '\t' || c == '\r' || c == '\n' {
			continue
		}
		if needIndent && c != ']' && c != '}' {
			needIndent = false
			depth++
			nl()
		}
		switch c {
		case '"':
			inStr = true
			sb.WriteByte(c)
		case '{', '[':
			needIndent = true
			sb.WriteByte(c)
		case ',':
			sb.WriteByte(c)
			nl()
		case ':':
			sb.WriteString(": ")
		case '}', ']':
			if needIndent {
				needIndent = false
			} else {
				depth--
				nl()
			}
			sb.WriteByte(c)
		default:
			sb.WriteByte(c)
		}
	}
	return sb.String()
}
