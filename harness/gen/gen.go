// Package gen holds the seeded workload generators: hostile JSON documents,
// spelling variants, RFC 6901 pointer universes with near-misses, patch
// operations generated against the state the reference model has reached,
// and byte/token level mutators.
package gen

import (
	"fmt"
	"math/rand"
	"strconv"
	"strings"
	"unicode/utf8"

	jr "github.com/evanphx/json-patch/v5/verifharness/jsonref"
	"github.com/evanphx/json-patch/v5/verifharness/refenc"
)

// U returns the JSON escape \uXXXX for the four hex digits given.
func U(hex4 string) string { return `\` + "u" + hex4 }

const (
	SpellRandom = iota
	SpellEncOn  // exactly as the encoder spells with EscapeHTML on
	SpellEncOff // exactly as the encoder spells with EscapeHTML off
	SpellPlain  // no escapes at all: only strings that need none are drawn
)

type Profile struct {
	Depth      int
	Width      int
	Keys       []string
	Strings    []string
	Numbers    []string
	NoNull     bool
	Lone       bool // may emit lone surrogate escapes (random spelling only)
	Dup        bool // may emit duplicate member names
	WS         int  // percent chance of whitespace at each gap
	Spell      int
	ScalarBias int // percent chance that a value below the root is a scalar (default 45)
	// Wide: per-mille chance that a container gets many members/elements (9..300: past the sizes at which
	// small-container fast paths, buffer growth and map-vs-list representations change) and that a string
	// is long (past 64, 256, 4096 bytes).  Children of a wide container are mostly scalars.
	Wide int
}

var wideSizes = []int{9, 16, 17, 32, 33, 64, 65, 128, 129, 257, 300}
var longStringSizes = []int{65, 129, 257, 513, 1025, 4097, 9000}

// WideKey is the i-th synthetic member name of a wide object (after the profile's own keys are used up).
func WideKey(i int) string { return "w" + strconv.Itoa(i) }

func (p *Profile) wide(r *rand.Rand) int {
	if p.Wide > 0 && r.Intn(1000) < p.Wide {
		return wideSizes[r.Intn(len(wideSizes))]
	}
	return 0
}

var HostileKeys = []string{"a", "b", "c", "d", "", "a/b", "m~n", "~", "/", "~1", "~0", "sensor_reading_01_celsius", "sensor_reading_02_celsius", "0", "1", "-1", "01", "x<y", "k&v", " ", "é", "😀", `q"r`, `b\s`, "\n", "-"}
var PlainKeys = []string{"a", "b", "c", "d", "e", "f", "k", "0", "1", "zz"}
var MergeKeys = []string{"a", "b", "c", "d", "x<y", "", "a~1b", "~0", `b\s`, `q"r`, "\x01\x7f", "sensor_reading_01_celsius", "sensor_reading_02_celsius"}

// NearMissKeys are pairwise different member names that a careless comparison takes for equal: letter case, Unicode
// case folding (long s, Kelvin sign), normalisation (precomposed / decomposed), width, trailing and embedded
// characters that a C string or a trimmed string loses, numerals spelled differently.
var NearMissKeys = []string{"name", "Name", "NAME", "na\u017fme", "k", "K", "\u212a", "\u00e9", "e\u0301", "E\u0301", "a", "a ", " a", "a\x00", "a\x00b", "\uff41", "0", "00", "0.0", "\u00df", "ss", "SS"}

// NearMissPlainKeys: the members of NearMissKeys that need no escape.
var NearMissPlainKeys = []string{"name", "Name", "NAME", "na\u017fme", "k", "K", "\u212a", "\u00e9", "e\u0301", "E\u0301", "a", "a ", " a", "\uff41", "0", "00", "0.0", "\u00df", "ss", "SS"}

var HostileStrings = []string{"", "s", "x<y>&z", "\xe2\x80\xa8\xe2\x80\xa9", "\u2039a\u203a\u203c\u2027\u202a\u2030", "é😀", `q"r\`, "\b\f\n\r\t\x01", "A", "/", "~", "null", "0", "a b", "\u007f", "𝄞", `\u003c`, `x\\u0026`, "[", "{\"", `a\"b`, `\\"`, `["\"]`, "a\ufffdb/", "\ufffd", `\`, `\\`}
var PlainStrings = []string{"", "s", "A", "hello world", "null", "0", "é", "😀", "a b c"}

var OddNumbers = []string{"0", "1", "-1", "-0", "1.0", "1e400", "1E+2", "12345678901234567890123", "0.1e-7", "2.50", "1e0", "100", "7", "0.0", "-1.5e-3", "9007199254740993", "1.5e10", "1.5e1", "2.25E-20", "2.25E-2", "6.022e230", "6.022e23", "1.50e1"}
var PlainNumbers = []string{"0", "1", "-1", "2", "7", "100", "12345", "1.5", "-2.25", "9007199254740991"}

func Hostile() *Profile {
	return &Profile{Depth: 4, Width: 5, Keys: HostileKeys, Strings: HostileStrings, Numbers: OddNumbers, WS: 8, Wide: 12}
}

func Plain() *Profile {
	return &Profile{Depth: 4, Width: 5, Keys: PlainKeys, Strings: PlainStrings, Numbers: PlainNumbers, Spell: SpellPlain, Wide: 12}
}

func (p *Profile) With(f func(*Profile)) *Profile {
	c := *p
	f(&c)
	return &c
}

var wsChars = []string{" ", "\n", "\t", "\r", "  ", " \n\t"}

func (p *Profile) ws(r *rand.Rand) string {
	if p.WS > 0 && r.Intn(100) < p.WS {
		return wsChars[r.Intn(len(wsChars))]
	}
	return ""
}

// SpellString spells the decoded string s as a JSON string token.
func SpellString(r *rand.Rand, s string, spell int, lone bool) string {
	switch spell {
	case SpellEncOn:
		return refenc.String(s, true)
	case SpellEncOff:
		return refenc.String(s, false)
	case SpellPlain:
		return `"` + s + `"`
	}
	var sb strings.Builder
	sb.WriteByte('"')
	valid := utf8.ValidString(s) // (then a U+FFFD in s is the character itself, not a decoding artefact)
	for _, c := range s {
		how := r.Intn(10)
		switch {
		case c == '"' || c == '\\':
			if how < 8 {
				sb.WriteByte('\\')
				sb.WriteRune(c)
			} else {
				sb.WriteString(U(fmt.Sprintf("%04x", c)))
			}
		case c < 0x20:
			short := map[rune]string{'\b': `\b`, '\f': `\f`, '\n': `\n`, '\r': `\r`, '\t': `\t`}[c]
			if short != "" && how < 6 {
				sb.WriteString(short)
			} else if how < 8 {
				sb.WriteString(U(fmt.Sprintf("%04x", c)))
			} else {
				sb.WriteString(U(fmt.Sprintf("%04X", c)))
			}
		case c == '/' && how < 3:
			sb.WriteString(`\/`)
		case how == 0 && c < 0x10000 && (c != utf8.RuneError || valid):
			sb.WriteString(U(fmt.Sprintf("%04x", c)))
		case how == 1 && c >= 0x10000:
			c2 := c - 0x10000
			sb.WriteString(U(fmt.Sprintf("%04x", 0xd800+(c2>>10))))
			sb.WriteString(U(fmt.Sprintf("%04X", 0xdc00+(c2&0x3ff))))
		default:
			sb.WriteRune(c)
		}
	}
	if lone && r.Intn(12) == 0 {
		sb.WriteString(U([]string{"d800", "dc00", "dbff", "dfff"}[r.Intn(4)]))
		switch r.Intn(6) {
		case 0, 1, 2:
			sb.WriteString("x")
		case 3:
			// an escape right behind the unpaired half: it is a character of its own, not the second half of a pair
			sb.WriteString(U([]string{"0041", "00e9", "2028", "003c", "fffd", "0000"}[r.Intn(6)]))
		case 4:
			// an unpaired half followed by a complete pair
			sb.WriteString(U("d83d") + U("de00"))
		}
	}
	sb.WriteByte('"')
	return sb.String()
}

func needsNoEscape(s string) bool {
	for _, c := range s {
		if c < 0x20 || c == '"' || c == '\\' || c == '<' || c == '>' || c == '&' || c == 0x2028 || c == 0x2029 {
			return false
		}
	}
	return true
}

func (p *Profile) str(r *rand.Rand) string {
	s := p.Strings[r.Intn(len(p.Strings))]
	if p.Spell == SpellPlain {
		for !needsNoEscape(s) {
			s = p.Strings[r.Intn(len(p.Strings))]
		}
	}
	if p.Wide > 0 && r.Intn(1000) < p.Wide/2 {
		unit := s
		if unit == "" {
			unit = "ab"
		}
		n := longStringSizes[r.Intn(len(longStringSizes))]
		s = strings.Repeat(unit, n/len(unit)+1)
	}
	return SpellString(r, s, p.Spell, p.Lone)
}

func (p *Profile) key(r *rand.Rand, k string) string {
	return SpellString(r, k, p.Spell, p.Lone && r.Intn(4) == 0)
}

// Scalar returns a scalar JSON text.
func (p *Profile) Scalar(r *rand.Rand) string {
	n := r.Intn(10)
	switch {
	case n == 0 && !p.NoNull:
		return "null"
	case n <= 2:
		return [...]string{"true", "false"}[r.Intn(2)]
	case n <= 5:
		return p.Numbers[r.Intn(len(p.Numbers))]
	default:
		return p.str(r)
	}
}

// Value returns a JSON text of nesting depth <= d.
func (p *Profile) Value(r *rand.Rand, d int) string {
	bias := p.ScalarBias
	if bias == 0 {
		bias = 45
	}
	if d <= 0 || r.Intn(100) < bias {
		return p.Scalar(r)
	}
	if r.Intn(2) == 0 {
		return p.Array(r, d)
	}
	return p.Object(r, d)
}

func (p *Profile) Array(r *rand.Rand, d int) string {
	k := r.Intn(p.Width + 1)
	if w := p.wide(r); w > 0 {
		k = w
		if d > 2 {
			d = 2
		}
		q := *p
		q.ScalarBias, q.Wide = 85, 0
		p = &q
	}
	var sb strings.Builder
	sb.WriteByte('[')
	sb.WriteString(p.ws(r))
	for i := 0; i < k; i++ {
		if i > 0 {
			sb.WriteByte(',')
			sb.WriteString(p.ws(r))
		}
		sb.WriteString(p.Value(r, d-1))
		sb.WriteString(p.ws(r))
	}
	sb.WriteByte(']')
	return sb.String()
}

func (p *Profile) Object(r *rand.Rand, d int) string {
	k := r.Intn(p.Width + 1)
	keys := p.Keys
	if w := p.wide(r); w > 0 && !p.Dup {
		k = w
		if d > 2 {
			d = 2
		}
		q := *p
		q.ScalarBias, q.Wide = 85, 0
		keys = append([]string{}, p.Keys...)
		for i := 0; len(keys) < k; i++ {
			keys = append(keys, WideKey(i))
		}
		q.Keys = keys
		p = &q
	}
	if k > len(keys) {
		k = len(keys)
	}
	perm := r.Perm(len(keys))[:k]
	if p.Spell == SpellPlain {
		q := perm[:0]
		for _, i := range perm {
			if needsNoEscape(p.Keys[i]) {
				q = append(q, i)
			}
		}
		perm = q
	}
	var sb strings.Builder
	sb.WriteByte('{')
	sb.WriteString(p.ws(r))
	for i, ki := range perm {
		if i > 0 {
			sb.WriteByte(',')
			sb.WriteString(p.ws(r))
		}
		name := p.Keys[ki]
		if p.Dup && i > 0 && r.Intn(5) == 0 {
			name = p.Keys[perm[r.Intn(i)]]
		}
		sb.WriteString(p.key(r, name))
		sb.WriteString(p.ws(r))
		sb.WriteByte(':')
		sb.WriteString(p.ws(r))
		sb.WriteString(p.Value(r, d-1))
		sb.WriteString(p.ws(r))
	}
	sb.WriteByte('}')
	return sb.String()
}

// Root returns an object- or array-rooted document.
func (p *Profile) Root(r *rand.Rand) string {
	d := 1 + r.Intn(p.Depth)
	if r.Intn(3) == 0 {
		return p.Array(r, d)
	}
	return p.Object(r, d)
}

// Any returns a document with any root type.
func (p *Profile) Any(r *rand.Rand) string {
	if r.Intn(5) == 0 {
		return p.Scalar(r)
	}
	return p.Root(r)
}

// Respell writes v with fresh random spelling (escapes, whitespace) and, if
// shuffle is set, members in a random order. The value is unchanged.
func (p *Profile) Respell(r *rand.Rand, v *jr.Value, shuffle bool) string {
	var sb strings.Builder
	p.respell(r, &sb, v, shuffle)
	return sb.String()
}

func (p *Profile) respell(r *rand.Rand, sb *strings.Builder, v *jr.Value, shuffle bool) {
	switch v.K {
	case jr.Null:
		sb.WriteString("null")
	case jr.Bool:
		sb.WriteString(strconv.FormatBool(v.B))
	case jr.Num:
		sb.WriteString(v.Lit)
	case jr.Str:
		if v.Lone {
			sb.WriteString(v.Raw)
		} else {
			sb.WriteString(SpellString(r, v.S, p.Spell, false))
		}
	case jr.Arr:
		sb.WriteByte('[')
		sb.WriteString(p.ws(r))
		for i, e := range v.A {
			if i > 0 {
				sb.WriteByte(',')
				sb.WriteString(p.ws(r))
			}
			p.respell(r, sb, e, shuffle)
			sb.WriteString(p.ws(r))
		}
		sb.WriteByte(']')
	case jr.Obj:
		order := make([]int, len(v.Keys))
		for i := range order {
			order[i] = i
		}
		if shuffle {
			r.Shuffle(len(order), func(i, j int) { order[i], order[j] = order[j], order[i] })
		}
		sb.WriteByte('{')
		sb.WriteString(p.ws(r))
		for n, i := range order {
			if n > 0 {
				sb.WriteByte(',')
				sb.WriteString(p.ws(r))
			}
			sb.WriteString(SpellString(r, v.Keys[i], p.Spell, false))
			sb.WriteString(p.ws(r))
			sb.WriteByte(':')
			sb.WriteString(p.ws(r))
			p.respell(r, sb, v.Vals[i], shuffle)
			sb.WriteString(p.ws(r))
		}
		sb.WriteByte('}')
	}
}

// MutateOnePoint returns a copy of v that differs from it at exactly one place.
func (p *Profile) MutateOnePoint(r *rand.Rand, v *jr.Value) *jr.Value {
	c := v.Clone()
	var nodes []*jr.Value
	var collect func(x *jr.Value)
	collect = func(x *jr.Value) {
		nodes = append(nodes, x)
		for _, e := range x.A {
			collect(e)
		}
		for _, e := range x.Vals {
			collect(e)
		}
	}
	collect(c)
	n := nodes[r.Intn(len(nodes))]
	switch n.K {
	case jr.Null:
		*n = jr.Value{K: jr.Bool}
	case jr.Bool:
		n.B = !n.B
	case jr.Num:
		last := n.Lit[len(n.Lit)-1]
		switch {
		case r.Intn(2) == 0 && len(n.Lit) >= 16 && last >= '0' && last <= '9' && !strings.ContainsAny(n.Lit, ".eE"):
			// a neighbouring integer: a different number with (for long literals) the same float64 image
			nl := byte('0' + (last-'0'+1)%10)
			n.Lit = n.Lit[:len(n.Lit)-1] + string(nl)
		case r.Intn(3) == 0 && strings.ContainsAny(n.Lit, "eE") && last >= '0' && last <= '9':
			// another exponent with the same leading digits (1.5e1 / 1.5e10 / 1.5e100)
			if last == '0' && r.Intn(2) == 0 && len(n.Lit) >= 2 && n.Lit[len(n.Lit)-2] >= '0' && n.Lit[len(n.Lit)-2] <= '9' {
				n.Lit = n.Lit[:len(n.Lit)-1]
			} else {
				n.Lit += "0"
			}
		case n.Lit == "3":
			n.Lit = "4"
		default:
			n.Lit = "3"
		}
	case jr.Str:
		n.S += "x"
		n.Raw = ""
		n.Lone = false
	case jr.Arr:
		switch {
		case len(n.A) >= 2 && r.Intn(3) == 0 && !jr.Equal(n.A[0], n.A[len(n.A)-1], jr.EqMode{}):
			n.A[0], n.A[len(n.A)-1] = n.A[len(n.A)-1], n.A[0]
		case len(n.A) > 0 && r.Intn(2) == 0:
			n.A = n.A[:len(n.A)-1]
		default:
			n.A = append(n.A, &jr.Value{K: jr.Null})
		}
	case jr.Obj:
		if len(n.Keys) > 0 && r.Intn(2) == 0 {
			i := r.Intn(len(n.Keys))
			n.Keys = append(n.Keys[:i:i], n.Keys[i+1:]...)
			n.Vals = append(n.Vals[:i:i], n.Vals[i+1:]...)
		} else {
			k := "zzz"
			for {
				if x, _ := n.Get(k); x == nil {
					break
				}
				k += "z"
			}
			n.Keys = append(n.Keys, k)
			n.Vals = append(n.Vals, &jr.Value{K: jr.Null})
		}
	}
	return c
}

// ---------------------------------------------------------------- pointers

// Pointers lists every pointer that resolves in v and near-misses for every
// container and scalar on the way.
func Pointers(v *jr.Value) (res, miss []string) {
	var walk func(x *jr.Value, prefix string)
	walk = func(x *jr.Value, prefix string) {
		res = append(res, prefix)
		switch x.K {
		case jr.Obj:
			for i, k := range x.Keys {
				walk(x.Vals[i], prefix+"/"+jr.EncTok(k))
			}
			miss = append(miss, prefix+"/zz", prefix+"/0", prefix+"/-", prefix+"/n~0w", prefix+"/n~1w", prefix+"/~01", prefix+"/~10", prefix+"/50%", prefix+"/a%sb%d", prefix+"/")
		case jr.Arr:
			n := len(x.A)
			for i, e := range x.A {
				walk(e, prefix+"/"+strconv.Itoa(i))
			}
			miss = append(miss, prefix+"/"+strconv.Itoa(n), prefix+"/"+strconv.Itoa(n+1), prefix+"/-", prefix+"/-1",
				prefix+"/-"+strconv.Itoa(n), prefix+"/-"+strconv.Itoa(n+1), prefix+"/-"+strconv.Itoa(n+2), prefix+"/zz")
		default:
			miss = append(miss, prefix+"/zz", prefix+"/0")
		}
	}
	walk(v, "")
	return
}

// NearNamePointers lists, for every object in v, pointers to members that are absent but whose names a careless
// comparison takes for a name that is present: the other letter case, a trailing blank, the name cut short.
func NearNamePointers(v *jr.Value) (miss []string) {
	var walk func(x *jr.Value, prefix string)
	walk = func(x *jr.Value, prefix string) {
		switch x.K {
		case jr.Obj:
			has := map[string]bool{}
			for _, k := range x.Keys {
				has[k] = true
			}
			for i, k := range x.Keys {
				walk(x.Vals[i], prefix+"/"+jr.EncTok(k))
				for _, alt := range []string{strings.ToUpper(k), strings.ToLower(k), strings.Title(k), k + " ", strings.TrimSpace(k)} {
					if alt != k && !has[alt] {
						miss = append(miss, prefix+"/"+jr.EncTok(alt))
					}
				}
			}
		case jr.Arr:
			for i, e := range x.A {
				walk(e, prefix+"/"+strconv.Itoa(i))
			}
		}
	}
	walk(v, "")
	return
}

// Pick draws a pointer: a near-miss with probability missRate percent.
func Pick(r *rand.Rand, res, miss []string, missRate int) string {
	if len(miss) > 0 && r.Intn(100) < missRate {
		m := miss[r.Intn(len(miss))]
		if r.Intn(5) == 0 {
			m += "/deeper"
		}
		return m
	}
	return res[r.Intn(len(res))]
}

// ---------------------------------------------------------------- byte-level mutation

var structural = []byte("{}[]:,\"\\0123456789-+.eEtfn \n\r\t\x00\x1f\x7f\xc3\xff")

// Mutate applies 1..3 byte-level mutations to a text.
func Mutate(r *rand.Rand, in string, other string) string {
	b := []byte(in)
	for n := 1 + r.Intn(3); n > 0; n-- {
		if len(b) == 0 {
			b = append(b, structural[r.Intn(len(structural))])
			continue
		}
		i := r.Intn(len(b))
		switch r.Intn(11) {
		case 0: // truncate
			b = b[:i]
		case 1: // delete a byte
			b = append(b[:i:i], b[i+1:]...)
		case 2: // duplicate a byte
			b = append(b[:i+1:i+1], b[i:]...)
		case 3: // splice another text in
			j := 0
			if len(other) > 0 {
				j = r.Intn(len(other))
			}
			b = append(append(append([]byte{}, b[:i]...), other[j:]...), b[i:]...)
		case 4, 5: // replace by a structural character
			b[i] = structural[r.Intn(len(structural))]
		case 6: // insert a structural character
			b = append(b[:i:i], append([]byte{structural[r.Intn(len(structural))]}, b[i:]...)...)
		case 7: // trailing data
			b = append(b, []string{" 1", "}", "]", ",", "null", "\x00", "x"}[r.Intn(7)]...)
		case 8: // wrap in (legal or illegal) whitespace
			w := []string{" ", "\n", "\r", "\t", "\f", "\v", "\xc2\xa0", "\xef\xbb\xbf"}[r.Intn(8)]
			if r.Intn(2) == 0 {
				b = append([]byte(w), b...)
			} else {
				b = append(b, w...)
			}
		case 10: // a run of invalid UTF-8 bytes (each becomes U+FFFD, three bytes for one, when a string is unquoted)
			run := strings.Repeat("\xff", 3+r.Intn(6)) + []string{"", "0123456789abcdef"}[r.Intn(2)]
			b = append(b[:i:i], append([]byte(run), b[i:]...)...)
		case 9: // break an escape or literal
			repl := []string{`\`, `\u12`, `\x`, "tru", "nul", "-", "1e", "01", ".5", `"`, `\'`, `\v`, `'`, `\0`}[r.Intn(14)]
			b = append(b[:i:i], append([]byte(repl), b[i:]...)...)
		}
		if len(b) > 1<<16 {
			b = b[:1<<16]
		}
	}
	return string(b)
}
