// Package jsonref is an independent, order- and literal-preserving JSON reader.
package jsonref

import (
	"errors"
	"fmt"
	"math/big"
	"strings"
	"unicode/utf8"
)

type Kind int

const (
	Null Kind = iota
	Bool
	Num
	Str
	Arr
	Obj
)

type Value struct {
	K        Kind
	B        bool
	Lit      string // number literal
	S        string // decoded string (lone surrogates -> U+FFFD)
	Lone     bool   // string contained a lone surrogate escape
	Raw      string // raw string token including quotes
	A        []*Value
	Keys     []string // decoded member names in document order
	Vals     []*Value
	KeyLone  []bool // per member: the name contained a lone surrogate escape (nil if none)
	Off, End int    // byte span [Off,End) of this value in the parsed text (set by Parse only)
}

const MaxDepth = 10000

type parser struct {
	b     []byte
	i     int
	depth int
	max   int
}

var ErrSyntax = errors.New("jsonref: syntax error")

// ParseMaxDepth is Parse with another nesting limit (RFC 8259 itself has none).
func ParseMaxDepth(b []byte, max int) (*Value, error) {
	p := &parser{b: b, max: max}
	p.ws()
	v, err := p.value()
	if err != nil {
		return nil, err
	}
	p.ws()
	if p.i != len(p.b) {
		return nil, ErrSyntax
	}
	return v, nil
}

func Parse(b []byte) (*Value, error) {
	p := &parser{b: b, max: MaxDepth}
	p.ws()
	v, err := p.value()
	if err != nil {
		return nil, err
	}
	p.ws()
	if p.i != len(p.b) {
		return nil, ErrSyntax
	}
	return v, nil
}

func Valid(b []byte) bool { _, err := Parse(b); return err == nil }

func (p *parser) ws() {
	for p.i < len(p.b) {
		switch p.b[p.i] {
		case ' ', '\t', '\r', '\n':
			p.i++
		default:
			return
		}
	}
}

func (p *parser) lit(s string) bool {
	if strings.HasPrefix(string(p.b[p.i:min(len(p.b), p.i+len(s))]), s) {
		p.i += len(s)
		return true
	}
	return false
}

func min(a, b int) int {
	if a < b {
		return a
	}
	return b
}

func (p *parser) value() (*Value, error) {
	start := p.i
	v, err := p.value1()
	if v != nil {
		v.Off, v.End = start, p.i
	}
	return v, err
}

func (p *parser) value1() (*Value, error) {
	if p.i >= len(p.b) {
		return nil, ErrSyntax
	}
	switch c := p.b[p.i]; {
	case c == '{':
		p.depth++
		if p.depth > p.max {
			return nil, ErrSyntax
		}
		p.i++
		v := &Value{K: Obj}
		p.ws()
		if p.i < len(p.b) && p.b[p.i] == '}' {
			p.i++
			p.depth--
			return v, nil
		}
		for {
			p.ws()
			if p.i >= len(p.b) || p.b[p.i] != '"' {
				return nil, ErrSyntax
			}
			k, err := p.str()
			if err != nil {
				return nil, err
			}
			p.ws()
			if p.i >= len(p.b) || p.b[p.i] != ':' {
				return nil, ErrSyntax
			}
			p.i++
			p.ws()
			e, err := p.value()
			if err != nil {
				return nil, err
			}
			v.Keys = append(v.Keys, k.S)
			v.Vals = append(v.Vals, e)
			if k.Lone {
				for len(v.KeyLone) < len(v.Keys)-1 {
					v.KeyLone = append(v.KeyLone, false)
				}
				v.KeyLone = append(v.KeyLone, true)
			}
			p.ws()
			if p.i >= len(p.b) {
				return nil, ErrSyntax
			}
			if p.b[p.i] == ',' {
				p.i++
				continue
			}
			if p.b[p.i] == '}' {
				p.i++
				p.depth--
				return v, nil
			}
			return nil, ErrSyntax
		}
	case c == '[':
		p.depth++
		if p.depth > p.max {
			return nil, ErrSyntax
		}
		p.i++
		v := &Value{K: Arr}
		p.ws()
		if p.i < len(p.b) && p.b[p.i] == ']' {
			p.i++
			p.depth--
			return v, nil
		}
		for {
			p.ws()
			e, err := p.value()
			if err != nil {
				return nil, err
			}
			v.A = append(v.A, e)
			p.ws()
			if p.i >= len(p.b) {
				return nil, ErrSyntax
			}
			if p.b[p.i] == ',' {
				p.i++
				continue
			}
			if p.b[p.i] == ']' {
				p.i++
				p.depth--
				return v, nil
			}
			return nil, ErrSyntax
		}
	case c == '"':
		return p.str()
	case c == 't':
		if p.lit("true") {
			return &Value{K: Bool, B: true}, nil
		}
		return nil, ErrSyntax
	case c == 'f':
		if p.lit("false") {
			return &Value{K: Bool}, nil
		}
		return nil, ErrSyntax
	case c == 'n':
		if p.lit("null") {
			return &Value{K: Null}, nil
		}
		return nil, ErrSyntax
	case c == '-' || (c >= '0' && c <= '9'):
		return p.num()
	}
	return nil, ErrSyntax
}

func (p *parser) num() (*Value, error) {
	s := p.i
	if p.b[p.i] == '-' {
		p.i++
	}
	if p.i >= len(p.b) {
		return nil, ErrSyntax
	}
	if p.b[p.i] == '0' {
		p.i++
	} else if p.b[p.i] >= '1' && p.b[p.i] <= '9' {
		for p.i < len(p.b) && p.b[p.i] >= '0' && p.b[p.i] <= '9' {
			p.i++
		}
	} else {
		return nil, ErrSyntax
	}
	if p.i < len(p.b) && p.b[p.i] == '.' {
		p.i++
		n := 0
		for p.i < len(p.b) && p.b[p.i] >= '0' && p.b[p.i] <= '9' {
			p.i++
			n++
		}
		if n == 0 {
			return nil, ErrSyntax
		}
	}
	if p.i < len(p.b) && (p.b[p.i] == 'e' || p.b[p.i] == 'E') {
		p.i++
		if p.i < len(p.b) && (p.b[p.i] == '+' || p.b[p.i] == '-') {
			p.i++
		}
		n := 0
		for p.i < len(p.b) && p.b[p.i] >= '0' && p.b[p.i] <= '9' {
			p.i++
			n++
		}
		if n == 0 {
			return nil, ErrSyntax
		}
	}
	return &Value{K: Num, Lit: string(p.b[s:p.i])}, nil
}

func hex4(b []byte) (rune, bool) {
	if len(b) < 4 {
		return 0, false
	}
	var r rune
	for _, c := range b[:4] {
		switch {
		case c >= '0' && c <= '9':
			r = r<<4 | rune(c-'0')
		case c >= 'a' && c <= 'f':
			r = r<<4 | rune(c-'a'+10)
		case c >= 'A' && c <= 'F':
			r = r<<4 | rune(c-'A'+10)
		default:
			return 0, false
		}
	}
	return r, true
}

func (p *parser) str() (*Value, error) {
	s := p.i
	p.i++ // opening quote
	var sb strings.Builder
	v := &Value{K: Str}
	for {
		if p.i >= len(p.b) {
			return nil, ErrSyntax
		}
		c := p.b[p.i]
		switch {
		case c == '"':
			p.i++
			v.S = sb.String()
			v.Raw = string(p.b[s:p.i])
			return v, nil
		case c < 0x20:
			return nil, ErrSyntax
		case c == '\\':
			p.i++
			if p.i >= len(p.b) {
				return nil, ErrSyntax
			}
			switch e := p.b[p.i]; e {
			case '"', '\\', '/':
				sb.WriteByte(e)
				p.i++
			case 'b':
				sb.WriteByte('\b')
				p.i++
			case 'f':
				sb.WriteByte('\f')
				p.i++
			case 'n':
				sb.WriteByte('\n')
				p.i++
			case 'r':
				sb.WriteByte('\r')
				p.i++
			case 't':
				sb.WriteByte('\t')
				p.i++
			case 'u':
				r, ok := hex4(p.b[p.i+1:])
				if !ok {
					return nil, ErrSyntax
				}
				p.i += 5
				if r >= 0xD800 && r < 0xDC00 {
					// high surrogate: need \uDC00-\uDFFF next
					if p.i+1 < len(p.b) && p.b[p.i] == '\\' && p.b[p.i+1] == 'u' {
						if r2, ok := hex4(p.b[p.i+2:]); ok && r2 >= 0xDC00 && r2 < 0xE000 {
							p.i += 6
							sb.WriteRune(0x10000 + (r-0xD800)<<10 + (r2 - 0xDC00))
							continue
						}
					}
					v.Lone = true
					sb.WriteRune(utf8.RuneError)
				} else if r >= 0xDC00 && r < 0xE000 {
					v.Lone = true
					sb.WriteRune(utf8.RuneError)
				} else {
					sb.WriteRune(r)
				}
			default:
				return nil, ErrSyntax
			}
		default:
			if c < utf8.RuneSelf {
				sb.WriteByte(c)
				p.i++
				continue
			}
			// ill-formed UTF-8 inside a string: each offending byte reads as
			// U+FFFD (Go's documented replacement)
			r, size := utf8.DecodeRune(p.b[p.i:])
			sb.WriteRune(r)
			p.i += size
		}
	}
}

func (v *Value) Clone() *Value {
	if v == nil {
		return nil
	}
	c := *v
	if v.A != nil {
		c.A = make([]*Value, len(v.A))
		for i, e := range v.A {
			c.A[i] = e.Clone()
		}
	}
	if v.Vals != nil {
		c.Keys = append([]string(nil), v.Keys...)
		c.Vals = make([]*Value, len(v.Vals))
		for i, e := range v.Vals {
			c.Vals[i] = e.Clone()
		}
	}
	return &c
}

func (v *Value) Get(k string) (*Value, int) {
	for i, kk := range v.Keys {
		if kk == k {
			return v.Vals[i], i
		}
	}
	return nil, -1
}

type EqMode struct {
	Ordered   bool
	SpellFlag *bool // set when two numbers differ in literal but are numerically equal
}

func numEqualNumeric(a, b string) bool {
	fa, _, e1 := big.ParseFloat(a, 10, 2000, big.ToNearestEven)
	fb, _, e2 := big.ParseFloat(b, 10, 2000, big.ToNearestEven)
	if e1 != nil || e2 != nil {
		return false
	}
	return fa.Cmp(fb) == 0
}

func Equal(a, b *Value, m EqMode) bool {
	if a.K != b.K {
		return false
	}
	switch a.K {
	case Null:
		return true
	case Bool:
		return a.B == b.B
	case Num:
		if a.Lit == b.Lit {
			return true
		}
		if m.SpellFlag != nil && numEqualNumeric(a.Lit, b.Lit) {
			*m.SpellFlag = true
		}
		return false
	case Str:
		return a.S == b.S
	case Arr:
		if len(a.A) != len(b.A) {
			return false
		}
		for i := range a.A {
			if !Equal(a.A[i], b.A[i], m) {
				return false
			}
		}
		return true
	case Obj:
		if len(a.Keys) != len(b.Keys) {
			return false
		}
		for i, k := range a.Keys {
			if m.Ordered {
				if b.Keys[i] != k || !Equal(a.Vals[i], b.Vals[i], m) {
					return false
				}
				continue
			}
			bv, _ := b.Get(k)
			if bv == nil || !Equal(a.Vals[i], bv, m) {
				return false
			}
		}
		return true
	}
	return false
}

func Quote(s string) string { return quote(s) }

func quote(s string) string {
	var sb strings.Builder
	sb.WriteByte('"')
	for _, r := range s {
		switch {
		case r == '"' || r == '\\':
			sb.WriteByte('\\')
			sb.WriteRune(r)
		case r < 0x20:
			fmt.Fprintf(&sb, "\\u%04x", r)
		default:
			sb.WriteRune(r)
		}
	}
	sb.WriteByte('"')
	return sb.String()
}

func (v *Value) String() string {
	switch v.K {
	case Null:
		return "null"
	case Bool:
		if v.B {
			return "true"
		}
		return "false"
	case Num:
		return v.Lit
	case Str:
		if v.Raw != "" {
			return v.Raw
		}
		return quote(v.S)
	case Arr:
		parts := make([]string, len(v.A))
		for i, e := range v.A {
			parts[i] = e.String()
		}
		return "[" + strings.Join(parts, ",") + "]"
	case Obj:
		parts := make([]string, len(v.Keys))
		for i, k := range v.Keys {
			parts[i] = quote(k) + ":" + v.Vals[i].String()
		}
		return "{" + strings.Join(parts, ",") + "}"
	}
	return "?"
}

// HasLone reports whether any string or member name in v came from a lone surrogate escape.
func (v *Value) HasLone() bool {
	switch v.K {
	case Str:
		return v.Lone
	case Arr:
		for _, e := range v.A {
			if e.HasLone() {
				return true
			}
		}
	case Obj:
		for _, l := range v.KeyLone {
			if l {
				return true
			}
		}
		for _, e := range v.Vals {
			if e.HasLone() {
				return true
			}
		}
	}
	return false
}

// HasDup reports whether some object in v has two members with the same name.
func (v *Value) HasDup() bool {
	switch v.K {
	case Arr:
		for _, e := range v.A {
			if e.HasDup() {
				return true
			}
		}
	case Obj:
		seen := make(map[string]bool, len(v.Keys))
		for _, k := range v.Keys {
			if seen[k] {
				return true
			}
			seen[k] = true
		}
		for _, e := range v.Vals {
			if e.HasDup() {
				return true
			}
		}
	}
	return false
}

// HasNullMember reports whether some object in v (at any depth) has a null-valued member.
func (v *Value) HasNullMember() bool {
	switch v.K {
	case Arr:
		for _, e := range v.A {
			if e.HasNullMember() {
				return true
			}
		}
	case Obj:
		for _, e := range v.Vals {
			if e.K == Null || e.HasNullMember() {
				return true
			}
		}
	}
	return false
}

// Walk calls f for every value in v with its RFC 6901 pointer.
func (v *Value) Walk(prefix string, f func(ptr string, v *Value)) {
	f(prefix, v)
	switch v.K {
	case Arr:
		for i, e := range v.A {
			e.Walk(prefix+"/"+itoa(i), f)
		}
	case Obj:
		for i, k := range v.Keys {
			v.Vals[i].Walk(prefix+"/"+EncTok(k), f)
		}
	}
}

func itoa(i int) string { return fmt.Sprintf("%d", i) }

// EncTok escapes a member name for use as an RFC 6901 reference token.
func EncTok(t string) string {
	t = strings.ReplaceAll(t, "~", "~0")
	return strings.ReplaceAll(t, "/", "~1")
}

// Resolve evaluates an RFC 6901 pointer strictly (no negative indices, no '-').
func (v *Value) Resolve(ptr string) *Value {
	if ptr == "" {
		return v
	}
	if ptr[0] != '/' {
		return nil
	}
	cur := v
	for _, t := range strings.Split(ptr[1:], "/") {
		t = strings.ReplaceAll(strings.ReplaceAll(t, "~1", "/"), "~0", "~")
		switch cur.K {
		case Obj:
			nx, _ := cur.Get(t)
			if nx == nil {
				return nil
			}
			cur = nx
		case Arr:
			if t == "" || (len(t) > 1 && t[0] == '0') {
				return nil
			}
			n := 0
			for _, c := range t {
				if c < '0' || c > '9' || n > 1<<30 {
					return nil
				}
				n = n*10 + int(c-'0')
			}
			if n >= len(cur.A) {
				return nil
			}
			cur = cur.A[n]
		default:
			return nil
		}
	}
	return cur
}

// Depth is the nesting depth of v (a scalar is 0).
func (v *Value) Depth() int {
	d := 0
	switch v.K {
	case Arr:
		for _, e := range v.A {
			if x := e.Depth() + 1; x > d {
				d = x
			}
		}
		if d == 0 {
			d = 1
		}
	case Obj:
		for _, e := range v.Vals {
			if x := e.Depth() + 1; x > d {
				d = x
			}
		}
		if d == 0 {
			d = 1
		}
	}
	return d
}

// Size is the number of values in v.
func (v *Value) Size() int {
	n := 1
	for _, e := range v.A {
		n += e.Size()
	}
	for _, e := range v.Vals {
		n += e.Size()
	}
	return n
}
