// Package mon holds the monitors that are independent of any one property:
// the recover wrapper with panic-site extraction and write-protected memory.
package mon

import (
	"fmt"
	"regexp"
	"runtime"
	"runtime/debug"
	"strings"
	"syscall"
	"unsafe"
)

type Panic struct {
	Value string `json:"value"`
	Class string `json:"class"`
	Site  string `json:"site"`  // innermost library function on the stack
	Entry string `json:"entry"` // outermost library function on the stack
	Stack string `json:"stack"`
	Fault bool   `json:"fault,omitempty"` // memory fault (write to protected input / read past its end)
	// Deviation: not a panic but another observation that every judge treats
	// like one (the exported entry points disagree with each other on one input).
	Deviation bool `json:"deviation,omitempty"`
}

func (p *Panic) Sig() string {
	if p.Deviation {
		return "deviation:" + p.Class + "@" + p.Site
	}
	return "panic:" + p.Class + "@" + p.Site
}

const libPrefix = "github.com/evanphx/json-patch"
const harnessPrefix = "github.com/evanphx/json-patch/v5/verifharness"

var digits = regexp.MustCompile(`[0-9]+`)

func classify(v any) (string, bool) {
	s := fmt.Sprint(v)
	if e, ok := v.(runtime.Error); ok {
		s = e.Error()
		if _, isFault := v.(interface{ Addr() uintptr }); isFault {
			return "memory-fault", true
		}
	}
	switch {
	case strings.Contains(s, "nil pointer dereference"):
		return "nil-deref", false
	case strings.Contains(s, "unexpected fault address"):
		return "memory-fault", true
	case strings.Contains(s, "index out of range"):
		return "index-range", false
	case strings.Contains(s, "slice bounds out of range"):
		return "slice-range", false
	case strings.Contains(s, "JSON decoder out of sync"):
		return "decoder-out-of-sync", false
	case strings.Contains(s, "assignment to entry in nil map"):
		return "nil-map", false
	}
	s = digits.ReplaceAllString(s, "#")
	if len(s) > 60 {
		s = s[:60]
	}
	return "other:" + s, false
}

// libFrames returns the library functions on the stack, innermost first.
func libFrames(stack string) []string {
	var out []string
	for _, line := range strings.Split(stack, "\n") {
		if !strings.HasPrefix(line, libPrefix) || strings.HasPrefix(line, harnessPrefix) {
			continue
		}
		fn := line
		if i := strings.LastIndex(fn, "("); i > 0 {
			fn = fn[:i]
		}
		fn = strings.TrimPrefix(fn, libPrefix)
		out = append(out, fn)
	}
	return out
}

// Try runs f and reports a panic instead of propagating it.
func Try(f func()) (p *Panic) {
	defer func() {
		if r := recover(); r != nil {
			st := string(debug.Stack())
			cl, fault := classify(r)
			p = &Panic{Value: fmt.Sprint(r), Class: cl, Fault: fault}
			fr := libFrames(st)
			if len(fr) > 0 {
				p.Site = fr[0]
				p.Entry = fr[len(fr)-1]
			}
			if len(st) > 2500 {
				st = st[:2500]
			}
			p.Stack = st
		}
	}()
	f()
	return nil
}

// ---------------------------------------------------------------- guarded memory

// Guarded is a byte slice that lives at the very end of read-only pages and is
// followed by an inaccessible guard page. Any write to it, and any read past
// its end, faults at the offending instruction; with
// debug.SetPanicOnFault(true) the fault is a recoverable panic that carries
// the writer's stack.
type Guarded struct {
	B     []byte
	mem   []byte
	page  int
	slack string
}

// SlackIntact reports whether the bytes behind the slice (its spare capacity) are unchanged.
func (g *Guarded) SlackIntact() bool {
	return g.slack == "" || string(g.B[len(g.B):cap(g.B)]) == g.slack
}

func NewGuarded(data []byte) (*Guarded, error) { return NewGuardedSlack(data, nil) }

// NewGuardedSlack is NewGuarded with spare capacity: the slice is followed,
// inside the read-only pages, by the bytes of slack (what a caller who cut a
// record out of a larger buffer has behind it) and cap(B) = len(data)+len(slack).
// An append to the argument writes there and faults; Slack() tells whether
// those bytes are still what they were.
func NewGuardedSlack(data, slack []byte) (*Guarded, error) {
	if len(slack) > 0 {
		g, err := NewGuarded(append(append([]byte{}, data...), slack...))
		if err != nil {
			return nil, err
		}
		g.slack = string(slack)
		g.B = g.B[:len(data):len(data)+len(slack)]
		return g, nil
	}
	page := syscall.Getpagesize()
	n := (len(data) + page - 1) / page
	if n == 0 {
		n = 1
	}
	mem, err := syscall.Mmap(-1, 0, (n+1)*page, syscall.PROT_READ|syscall.PROT_WRITE, syscall.MAP_ANON|syscall.MAP_PRIVATE)
	if err != nil {
		return nil, err
	}
	off := n*page - len(data)
	copy(mem[off:], data)
	if err := syscall.Mprotect(mem[:n*page], syscall.PROT_READ); err != nil {
		return nil, err
	}
	if err := syscall.Mprotect(mem[n*page:], syscall.PROT_NONE); err != nil {
		return nil, err
	}
	g := &Guarded{mem: mem, page: page}
	// cap == len, so append() reallocates instead of touching the guard page
	g.B = unsafe.Slice((*byte)(unsafe.Pointer(&mem[off])), len(data))[:len(data):len(data)]
	if len(data) == 0 {
		g.B = g.B[:0:0]
	}
	return g, nil
}

func (g *Guarded) Free() {
	if g.mem != nil {
		syscall.Munmap(g.mem)
		g.mem = nil
		g.B = nil
	}
}

// EnableFaultPanics must be called on every goroutine that touches guarded memory.
func EnableFaultPanics() { debug.SetPanicOnFault(true) }
