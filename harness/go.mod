// Placeholder that marks the module root and serves editors/dev builds.
// Checks never use it: check.sh generates a go.mod from go.mod.tmpl into a
// scratch directory and builds with -modfile (see ../lib.sh).
module github.com/evanphx/json-patch/v5/verifharness

go 1.21

require (
	github.com/evanphx/json-patch v0.0.0
	github.com/evanphx/json-patch/v5 v5.0.0
)

replace github.com/evanphx/json-patch/v5 => /repo/v5

replace github.com/evanphx/json-patch => /var/tmp/jpverif-dev/legacy
