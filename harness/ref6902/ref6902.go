// Package ref6902 is a reference evaluator of RFC 6902 (with RFC 6901
// pointers) in the library's documented dialect. It shares no code with the
// library. Besides the resulting document (with the member order the library
// documents) it reports the first failing operation and its cause, which
// removes were skipped under AllowMissingPathOnRemove, the values duplicated
// by copy operations, and whether the case lies outside the comparing domain
// of the properties (OutOfDom).
package ref6902

import (
	"strings"

	jr "github.com/evanphx/json-patch/v5/verifharness/jsonref"
)

type Cause int

const (
	OK Cause = iota
	TestUnequal
	AbsentMember
	ParentUnreachable
	IndexRange
	BadToken
	RootNotContainer
	MoveFromRoot
	CopyLimit
)

func (c Cause) String() string {
	return [...]string{"ok", "test-unequal", "absent-member", "parent-unreachable", "index-range", "bad-token", "root-not-container", "move-from-root", "copy-limit"}[c]
}

type Op struct {
	Kind     string
	Path     string
	From     string
	Value    *jr.Value // nil when absent
	HasValue bool
}

type Opts struct {
	NegIdx       bool
	AllowMissing bool
	EnsurePath   bool
	Legacy       bool // v4 dialect: no root-replacing add, no copy from ""
	// NullMemberIsMissing: under EnsurePath, an object member on the path whose value is null
	// is replaced, in place, by the container the path needs (what the library does: such a
	// member reads as "no value"). Outside C14's stated domain; used by C05, which only asks
	// where the member ends up. Off: such a path is out of the comparing domain.
	NullMemberIsMissing bool
	// EmptyTokens: an empty reference token ("/a/", "/") is an ordinary token naming the member
	// called "" (RFC 6901). C01 puts such pointers outside its stated domain; C13 does not.
	EmptyTokens bool
	// HugeIndices: an index token of more than nine digits that addresses an existing array is
	// simply out of range when an element is looked up (remove, replace, test, from, interior
	// tokens); without it such tokens are outside the comparing domain. Insert positions (add)
	// stay outside: under EnsurePath they would ask for that much padding.
	HugeIndices bool
	// ScalarBlocksEnsure: under EnsurePath a string, number or boolean on the path is not out of
	// the domain (as it is for C14) but simply in the way: the add is a plain add whose parent
	// cannot be reached. Used by C08, which asks how that failure is reported.
	ScalarBlocksEnsure bool
	// ZeroPaddedAreNames: when EnsurePath decides whether a missing parent becomes an array or an
	// object it looks at the next token; a token such as "01", "00", "+1" or "-0" is not an array
	// index (RFC 6901: "0" or a digit string without leading zero) and therefore a member name.
	// Inside C14's stated domain ("member names or non-negative canonical indices").
	ZeroPaddedAreNames bool
}

type Result struct {
	Doc       *jr.Value
	FailIndex int // -1 when all applied
	Cause     Cause
	OutOfDom  string // non-empty: reason the case is outside the comparing domain
	Soft      string // non-empty: the case used a dialect extension (see Opts.NullMemberIsMissing)
	Skipped   []int  // removes skipped under AllowMissing
	Copies    []Copy // accounted copies, in order
}

// Copy records one copy operation that reached the point where the library
// accounts its size: source resolved and destination parent reachable.
type Copy struct {
	Index int
	Value *jr.Value
}

// Evaluator applies operations one at a time.
type Evaluator struct {
	Root    *jr.Value
	O       Opts
	OOD     string
	Skipped []int
	Copies  []Copy
	Created []string // pointers of containers created by EnsurePath (diagnostic)
	Soft    string
	n       int

	inLookup bool // index() is resolving an existing element, not an insert position
}

func New(doc *jr.Value, o Opts) *Evaluator {
	return &Evaluator{Root: doc.Clone(), O: o}
}

func (e *Evaluator) setOOD(s string) {
	if e.OOD == "" {
		e.OOD = s
	}
}

func (e *Evaluator) decodeTok(t string) string {
	for i := 0; i < len(t); i++ {
		if t[i] == '~' && (i+1 >= len(t) || (t[i+1] != '0' && t[i+1] != '1')) {
			e.setOOD("invalid ~ escape")
		}
	}
	t = strings.ReplaceAll(t, "~1", "/")
	return strings.ReplaceAll(t, "~0", "~")
}

func (e *Evaluator) split(p string) ([]string, bool) {
	if p == "" {
		return nil, true
	}
	if p[0] != '/' {
		e.setOOD("pointer without leading slash")
		return nil, false
	}
	toks := strings.Split(p[1:], "/")
	for i, t := range toks {
		if t == "" && !e.O.EmptyTokens {
			e.setOOD("empty reference token")
		}
		toks[i] = e.decodeTok(t)
	}
	return toks, true
}

// index parses an array index token.
func (e *Evaluator) index(tok string) (idx int, neg bool, ok bool) {
	if tok == "" {
		return 0, false, false
	}
	s := tok
	if s[0] == '-' {
		neg = true
		s = s[1:]
	} else if s[0] == '+' {
		e.setOOD("non-canonical index")
		return 0, false, false
	}
	if s == "" {
		return 0, false, false
	}
	for _, c := range s {
		if c < '0' || c > '9' {
			return 0, false, false
		}
	}
	if (len(s) > 1 && s[0] == '0') || (neg && s == "0") {
		e.setOOD("non-canonical index")
		return 0, false, false
	}
	if len(s) > 9 {
		if !(e.O.HugeIndices && e.inLookup) {
			e.setOOD("index beyond 10^9")
		}
		return 1 << 40, neg, true
	}
	n := 0
	for _, c := range s {
		n = n*10 + int(c-'0')
	}
	return n, neg, true
}

// looksNumericNotCanonical: optional sign, digits, but not an RFC 6901 array index and not a
// negative index in the library's dialect ("01", "00", "+1", "-0", "-01").
func looksNumericNotCanonical(t string) bool {
	s := t
	if s != "" && (s[0] == '+' || s[0] == '-') {
		s = s[1:]
	}
	if s == "" {
		return false
	}
	for _, c := range s {
		if c < '0' || c > '9' {
			return false
		}
	}
	return t[0] == '+' || (len(s) > 1 && s[0] == '0') || t == "-0"
}

// elemIndex resolves tok to an existing element position of array a.
func (e *Evaluator) elemIndex(a *jr.Value, tok string) (int, Cause) {
	e.inLookup = true
	n, neg, ok := e.index(tok)
	e.inLookup = false
	if !ok {
		return 0, BadToken
	}
	if neg {
		if !e.O.NegIdx {
			return 0, IndexRange
		}
		if n > len(a.A) {
			return 0, IndexRange
		}
		return len(a.A) - n, OK
	}
	if n >= len(a.A) {
		return 0, IndexRange
	}
	return n, OK
}

func (e *Evaluator) child(cur *jr.Value, tok string) (*jr.Value, Cause) {
	switch cur.K {
	case jr.Obj:
		v, _ := cur.Get(tok)
		if v == nil {
			return nil, AbsentMember
		}
		return v, OK
	case jr.Arr:
		i, c := e.elemIndex(cur, tok)
		if c != OK {
			return nil, c
		}
		return cur.A[i], OK
	}
	return nil, ParentUnreachable
}

// parent walks all but the last token.
func (e *Evaluator) parent(toks []string) (*jr.Value, bool) {
	cur := e.Root
	for _, t := range toks[:len(toks)-1] {
		nx, c := e.child(cur, t)
		if c != OK {
			return nil, false
		}
		cur = nx
	}
	if cur.K != jr.Obj && cur.K != jr.Arr {
		return nil, false
	}
	return cur, true
}

// Get resolves a pointer in the dialect (negative indices honoured).
func (e *Evaluator) Get(path string) (*jr.Value, Cause) {
	toks, ok := e.split(path)
	if !ok {
		return nil, BadToken
	}
	if len(toks) == 0 {
		return e.Root, OK
	}
	par, ok := e.parent(toks)
	if !ok {
		return nil, ParentUnreachable
	}
	return e.child(par, toks[len(toks)-1])
}

// parentOK tells whether the parent location of path can be reached.
func (e *Evaluator) parentOK(path string) bool {
	toks, ok := e.split(path)
	if !ok {
		return false
	}
	if len(toks) == 0 {
		return true
	}
	_, ok = e.parent(toks)
	return ok
}

func (e *Evaluator) add(path string, v *jr.Value, isAddOp bool) Cause {
	toks, ok := e.split(path)
	if !ok {
		return BadToken
	}
	if len(toks) == 0 {
		if !isAddOp {
			e.setOOD("copy/move to root")
		}
		if e.O.Legacy {
			e.setOOD("v4: add to root")
		}
		if v.K == jr.Null {
			e.setOOD("root replaced by null")
		}
		if v.K != jr.Obj && v.K != jr.Arr {
			return RootNotContainer
		}
		e.Root = v
		return OK
	}
	if e.O.EnsurePath && isAddOp {
		e.ensure(toks)
	}
	par, ok := e.parent(toks)
	if !ok {
		return ParentUnreachable
	}
	last := toks[len(toks)-1]
	if par.K == jr.Obj {
		if _, i := par.Get(last); i >= 0 {
			par.Vals[i] = v
		} else {
			par.Keys = append(par.Keys, last)
			par.Vals = append(par.Vals, v)
		}
		return OK
	}
	if last == "-" {
		par.A = append(par.A, v)
		return OK
	}
	n, neg, ok := e.index(last)
	if !ok {
		return BadToken
	}
	pos := n
	if neg {
		if !e.O.NegIdx || n > len(par.A)+1 {
			return IndexRange
		}
		pos = len(par.A) + 1 - n
	} else if n > len(par.A) {
		return IndexRange
	}
	par.A = append(par.A, nil)
	copy(par.A[pos+1:], par.A[pos:])
	par.A[pos] = v
	return OK
}

// ensure creates missing parents (EnsurePathExistsOnAdd): an array when the
// next token is an index or '-', an object otherwise; arrays are padded with
// null up to the addressed index.
func (e *Evaluator) ensure(toks []string) {
	cur := e.Root
	created := false
	ptr := ""
	for i := 0; i < len(toks)-1; i++ {
		t := toks[i]
		ptr += "/" + jr.EncTok(t)
		nx, c := e.child(cur, t)
		if c == OK {
			if nx.K == jr.Null && cur.K == jr.Obj && e.O.NullMemberIsMissing {
				// add-on-existing: the member keeps its position, its value becomes the new container
				e.Soft = "null member on an ensure path"
				if _, neg, ok := e.index(toks[i+1]); (ok && !neg) || toks[i+1] == "-" {
					*nx = jr.Value{K: jr.Arr}
				} else if ok && neg {
					e.setOOD("ensure: negative index")
					return
				} else {
					*nx = jr.Value{K: jr.Obj}
				}
				e.Created = append(e.Created, ptr)
				cur = nx
				created = true
				continue
			}
			if nx.K != jr.Obj && nx.K != jr.Arr && nx.K != jr.Null && e.O.ScalarBlocksEnsure {
				// nothing can be created beneath a scalar: the add that follows fails because
				// its parent cannot be reached, option or not
				return
			}
			if nx.K != jr.Obj && nx.K != jr.Arr {
				e.setOOD("ensure: null/scalar on path")
				return
			}
			cur = nx
			continue
		}
		var nc *jr.Value
		nt := toks[i+1]
		if e.O.ZeroPaddedAreNames && looksNumericNotCanonical(nt) {
			nc = &jr.Value{K: jr.Obj}
		} else if _, neg, ok := e.index(nt); ok || nt == "-" {
			if neg {
				e.setOOD("ensure: negative index")
				return
			}
			nc = &jr.Value{K: jr.Arr}
		} else {
			nc = &jr.Value{K: jr.Obj}
		}
		switch cur.K {
		case jr.Obj:
			cur.Keys = append(cur.Keys, t)
			cur.Vals = append(cur.Vals, nc)
		case jr.Arr:
			n, neg, ok := e.index(t)
			if !ok || neg {
				if t == "-" {
					e.setOOD("ensure: '-' not last")
				} else {
					e.setOOD("ensure: bad array token")
				}
				return
			}
			if n > 10000 {
				e.setOOD("ensure: index > 1e4")
				return
			}
			for len(cur.A) < n {
				cur.A = append(cur.A, &jr.Value{K: jr.Null})
			}
			cur.A = append(cur.A, nc)
		default:
			return
		}
		e.Created = append(e.Created, ptr)
		cur = nc
		created = true
	}
	last := toks[len(toks)-1]
	if cur.K == jr.Arr && !created {
		if n, neg, ok := e.index(last); ok && !neg && n > len(cur.A) {
			// every parent exists: this is a plain add that fails; the
			// property only speaks about missing parents
			e.setOOD("ensure: existing final array, index beyond end")
		} else if ok && neg {
			e.setOOD("ensure: negative index")
		}
	}
	if cur.K == jr.Arr && created {
		if n, neg, ok := e.index(last); ok && !neg {
			if n > 10000 {
				e.setOOD("ensure: index > 1e4")
				return
			}
			for len(cur.A) < n {
				cur.A = append(cur.A, &jr.Value{K: jr.Null})
			}
		} else if ok && neg {
			e.setOOD("ensure: negative index")
		}
	}
}

// remove returns the cause and whether a failure counts as "target or ancestor absent".
func (e *Evaluator) remove(path string) (Cause, bool) {
	toks, ok := e.split(path)
	if !ok {
		return BadToken, false
	}
	if len(toks) == 0 {
		e.setOOD("remove of root")
		return BadToken, false
	}
	par, ok := e.parent(toks)
	if !ok {
		return ParentUnreachable, true
	}
	last := toks[len(toks)-1]
	if par.K == jr.Obj {
		_, i := par.Get(last)
		if i < 0 {
			return AbsentMember, true
		}
		par.Keys = append(par.Keys[:i:i], par.Keys[i+1:]...)
		par.Vals = append(par.Vals[:i:i], par.Vals[i+1:]...)
		return OK, false
	}
	i, c := e.elemIndex(par, last)
	if c != OK {
		if c == BadToken {
			e.setOOD("remove: non-numeric token on array")
		}
		e.inLookup = true
		_, neg, _ := e.index(last)
		e.inLookup = false
		if neg && !e.O.NegIdx {
			return c, false
		}
		return c, c == IndexRange
	}
	par.A = append(par.A[:i:i], par.A[i+1:]...)
	return OK, false
}

func (e *Evaluator) replace(path string, v *jr.Value) Cause {
	toks, ok := e.split(path)
	if !ok {
		return BadToken
	}
	if len(toks) == 0 {
		if v.K == jr.Null {
			e.setOOD("root replaced by null")
		}
		if v.K != jr.Obj && v.K != jr.Arr {
			return RootNotContainer
		}
		e.Root = v
		return OK
	}
	par, ok := e.parent(toks)
	if !ok {
		return ParentUnreachable
	}
	last := toks[len(toks)-1]
	if par.K == jr.Obj {
		_, i := par.Get(last)
		if i < 0 {
			return AbsentMember
		}
		par.Vals[i] = v
		return OK
	}
	i, c := e.elemIndex(par, last)
	if c != OK {
		return c
	}
	par.A[i] = v
	return OK
}

var nullValue = &jr.Value{K: jr.Null}

// Step applies one operation to the current state.
func (e *Evaluator) Step(op Op) Cause {
	i := e.n
	e.n++
	c := OK
	val := op.Value
	if val == nil {
		val = nullValue
	}
	switch op.Kind {
	case "add":
		c = e.add(op.Path, val.Clone(), true)
	case "replace":
		c = e.replace(op.Path, val.Clone())
	case "remove":
		var missing bool
		c, missing = e.remove(op.Path)
		if c != OK && missing && e.O.AllowMissing {
			e.inLookup = true
			_, neg, _ := e.index(lastTok(op.Path))
			e.inLookup = false
			if neg && !e.O.NegIdx {
				e.setOOD("allow-missing with negative index while disabled")
			}
			e.Skipped = append(e.Skipped, i)
			c = OK
		}
	case "move":
		if op.From == "" {
			c = MoveFromRoot
			break
		}
		if op.Path == "" {
			e.setOOD("copy/move to root")
		}
		if strings.HasPrefix(op.Path, op.From+"/") {
			// RFC 6902: the from location must not be a proper prefix of path
			e.setOOD("move into own child")
		}
		v, cc := e.Get(op.From)
		if cc != OK {
			c = cc
			break
		}
		if cc, _ := e.remove(op.From); cc != OK {
			c = cc
			break
		}
		c = e.add(op.Path, v, false)
	case "copy":
		if op.Path == "" {
			e.setOOD("copy/move to root")
		}
		if op.From == "" && e.O.Legacy {
			e.setOOD("v4: copy from root")
		}
		v, cc := e.Get(op.From)
		if cc != OK {
			c = cc
			break
		}
		if e.parentOK(op.Path) && op.Path != "" {
			e.Copies = append(e.Copies, Copy{Index: i, Value: v.Clone()})
		}
		c = e.add(op.Path, v.Clone(), false)
	case "test":
		toks, ok := e.split(op.Path)
		if !ok {
			c = BadToken
			break
		}
		var cur *jr.Value
		if len(toks) == 0 {
			cur = e.Root
		} else {
			par, ok := e.parent(toks)
			if !ok {
				c = ParentUnreachable
				break
			}
			v, cc := e.child(par, toks[len(toks)-1])
			switch {
			case cc == OK:
				cur = v
			case cc == AbsentMember:
				cur = nullValue
			default:
				c = cc
			}
			if c != OK {
				break
			}
		}
		spell := false
		if !jr.Equal(cur, val, jr.EqMode{SpellFlag: &spell}) {
			c = TestUnequal
		}
		if spell {
			e.setOOD("test of numerically equal, differently spelled numbers")
		}
		if !op.HasValue {
			e.setOOD("test without value")
		}
	default:
		e.setOOD("unknown operation")
		c = BadToken
	}
	return c
}

// Eval applies all operations; the first failure stops the evaluation.
func Eval(doc *jr.Value, ops []Op, o Opts) Result {
	e := New(doc, o)
	res := Result{FailIndex: -1}
	for i, op := range ops {
		if c := e.Step(op); c != OK {
			res.FailIndex = i
			res.Cause = c
			res.OutOfDom = e.OOD
			res.Skipped = e.Skipped
			res.Copies = e.Copies
			res.Soft = e.Soft
			return res
		}
	}
	res.Doc = e.Root
	res.OutOfDom = e.OOD
	res.Skipped = e.Skipped
	res.Copies = e.Copies
	res.Soft = e.Soft
	return res
}

func lastTok(p string) string {
	i := strings.LastIndex(p, "/")
	if i < 0 {
		return p
	}
	return p[i+1:]
}
