#!/usr/bin/env python3
"""Regenerates /verif/MANIFEST.json from the table below (run from /verif)."""
import json, os, subprocess

HERE = os.path.dirname(os.path.dirname(os.path.abspath(__file__)))

# property id -> (technique, level text, level note, design ref)
CHECKS = {
 "C01": ("differential runtime monitor: real Apply vs independent RFC 6902 reference evaluator on seeded state-directed operation sequences, under the pool sanitizer",
         "Exploration. Every case runs DecodePatch+ApplyWithOptions of the library built from the working tree and an independent reference evaluator; success/failure and the value (members unordered, numbers by literal, strings by code point) must agree inside the property's stated domain. Bounded-exhaustive over all single operations on 12 fixed documents x their pointer universe (resolvable + near-miss) x both negative-index settings; seeded random sequences of 1-12 (thorough: up to 40) operations generated against the state the reference has reached; dedicated families for copy isolation, null-then-test, move = remove+add, root replacement followed by operations. Workers run with the pool sanitizer off / poison / fresh.",
         "Trusted: the reference evaluator and parser in harness/ (self-tested on the RFC 6902 appendix A, RFC 6901 section 5 examples; parser cross-checked with encoding/json), the Go toolchain. Only the generated cases are covered: documents of depth <= 5, <= 40 operations.",
         "DESIGN.md section 6 C01"),
}

NOT_YET = {}

def main():
    props = [json.loads(l) for l in open(os.path.join(HERE, "properties.jsonl"))]
    ids = [p["id"] for p in props]
    hooks = subprocess.run(["git", "-C", "/repo", "log", "--format=%H %s"], capture_output=True, text=True).stdout.splitlines()
    hook_commits = [l.split()[0] for l in hooks if " verif hooks:" in l]
    checks = []
    for pid in ids:
        if pid not in CHECKS:
            continue
        tech, text, note, ref = CHECKS[pid]
        checks.append({
            "property_id": pid,
            "quick_cmd": "./check.sh %s quick" % pid,
            "thorough_cmd": "./check.sh %s thorough" % pid,
            "evidence_file": "evidence/%s.json" % pid,
            "replay_cmd_template": "./check.sh replay {path}",
            "engine": "jpverif",
            "level_claimed": {"category": "exploration", "text": text, "design_ref": ref},
            "level_note": note,
            "technique": tech,
        })
    na = [{"property_id": pid, "reason": NOT_YET.get(pid, "check not built yet in this round (runtime-monitoring design exists in DESIGN.md section 6)")}
          for pid in ids if pid not in CHECKS]
    m = {
        "version": 1,
        "setup_cmd": "./setup.sh",
        "hooks": {
            "guard": "verif",
            "enable": "go build -tags verif (check.sh builds the harness against /repo/v5 through a replace directive with -tags verif)",
            "baseline_off_cmd": "cd /repo/v5 && GOFLAGS=-mod=mod GOPROXY=off GOSUMDB=off go test -vet=off -count=1 -timeout 25m ./...",
            "source_commits": hook_commits,
            "add_only": True,
        },
        "engines": [{
            "name": "jpverif",
            "path": "harness/",
            "serves_properties": [c["property_id"] for c in checks],
            "kind_free_text": "Go harness: seeded workload generators, independent reference models (jsonref, ref6902, ref7396, refenc) used as online oracles at the call boundary, pool sanitizer hooks (poison/fresh), write-protected inputs, hook event monitors, Go race detector; driver + 16 isolated worker processes with a crash journal",
        }],
        "checks": checks,
        "notes": "All checks: ./check.sh <id> <quick|thorough>; VERIF_SEED selects the seeded case lists. Exit 0 held / 1 VIOLATION / 2 INCONCLUSIVE. Known findings: known_findings.jsonl.",
        "not_applicable": na,
    }
    json.dump(m, open(os.path.join(HERE, "MANIFEST.json"), "w"), indent=1)
    print("MANIFEST.json: %d checks, %d not_applicable" % (len(checks), len(na)))

if __name__ == "__main__":
    main()
