#!/usr/bin/env python3
"""Regenerates /verif/MANIFEST.json from the table below (run from /verif)."""
import json, os, subprocess

HERE = os.path.dirname(os.path.dirname(os.path.abspath(__file__)))

T = "Trusted: the reference models and parser in harness/ (self-tested on the RFCs' own examples at every start, parser cross-checked with encoding/json), the Go toolchain. Covers only the generated cases (bounds in the rule text of the evidence file and DESIGN.md section 6)."

# property id -> (technique, level text, level note, design ref)
CHECKS = {
 "C01": ("differential runtime monitor: real DecodePatch+Apply vs independent RFC 6902 reference evaluator on seeded state-directed operation sequences and an exhaustive single-operation family, under the pool sanitizer",
         "Exploration. Success/failure and value (members unordered, numbers by literal, strings by code point) of the real library must agree with an independent reference evaluator inside the property's stated domain. Bounded-exhaustive: all single operations on 12 fixed documents x their pointer universe (resolvable + near-miss) x both negative-index settings (~65k). Seeded: sequences of 1-12 (thorough: 40) operations generated against the state the reference has reached; families for copy isolation, relocation chains (copied/moved/added values copied and moved again into and out of each other, all applicable), null-then-test, move = remove+add (library against itself), root replacement followed by operations; member names needing ~0/~1 include one spelled ~01 as a token.",
         T, "DESIGN.md section 6 C01"),
 "C02": ("differential runtime monitor: real MergePatch vs the RFC 7396 pseudo-code implemented independently, exhaustive over all pairs of a value universe plus seeded derived patches",
         "Exploration. MergePatch output (unordered, numbers by literal) must equal RFC 7396's MergePatch for non-null documents; non-object patches must come back verbatim. Exhaustive: all ordered pairs of a 60-value universe; seeded: patches derived from the document (delete/replace/merge/type change, nulls at every depth, arrays holding objects with null members) and independent pairs.",
         T, "DESIGN.md section 6 C02"),
 "C03": ("metamorphic + reference monitor: CreateMergePatch output checked for minimality and round-tripped through the RFC 7396 reference and the library's own MergePatch",
         "Exploration. For accepted pairs the patch must be {} iff A equals B, mention only differing members, carry removed members as null and B's number literals; when B has no null member, applying it (reference and library) must give B. Rejection clause over all ordered pairs of root kinds. Exhaustive over the object universe and root-kind pairs; seeded edited objects (small deep diffs), independent objects, arrays of objects.",
         T, "DESIGN.md section 6 C03"),
 "C04": ("crash/panic monitor: recover() around every exported entry point of both packages inside isolated worker processes with a crash journal and per-case watchdogs, on hostile, mutated, enumerated and deeply nested inputs",
         "Exploration. Every exported entry point of v5 and of the staged legacy package is called on awkward valid inputs, byte mutations, all <=3-token strings for each []byte parameter (quick: all <=2-token strings plus a stride of the 3-token ones), the full option matrix (256 combinations), nesting depths up to 100000, values that grow deeper than the decoder limit through operations (depth-growth), overflow-sized tokens and applicable relocation chains (a node shared between two locations becomes a cycle and a fatal stack overflow), and an exhaustive family of nulls stored by the patch, relocated and then descended into (both packages). A panic is caught by recover(), a fatal error or kill is attributed to the journalled case by the driver, a case exceeding the watchdog is re-run alone with 5x budget (only a second time-out is a hang).",
         "Trusted: Go runtime's recover and process exit status. 'Never hangs' is decided in the bounded form stated in DESIGN.md section 9. Inputs beyond the generator bounds are not covered.", "DESIGN.md section 6 C04"),
 "C05": ("ordered, literal-exact differential monitor: outputs parsed by an order-preserving parser and compared with the reference's order model; invariant hook on the live tree",
         "Exploration. Apply outputs must match the reference member by member, in order, number literals as text; the empty patch must reproduce order and literals; MergePatch must keep survivors in document order ahead of new members and untouched members identical. The ApplyEnd hook walks the live tree (key list vs member map agreement) at the end of every call. EnsurePathExistsOnAdd through null-valued members (the member keeps its place). The four Apply entry points must agree on one input in three.",
         T, "DESIGN.md section 6 C05"),
 "C06": ("differential runtime monitor: real Equal vs independent deep comparison, exhaustive over universe pairs, plus symmetry/transitivity/reflexivity laws on generated pairs and triples",
         "Exploration. Equal must agree with an independent structural comparison (false for ill-formed input) on pairs equal by construction (shuffles, whitespace, re-escaped strings), one-point differences, null shapes, ill-formed and identical ill-formed texts; every pair is also asked swapped; triples for transitivity; symmetry and reflexivity also on pairs whose value is not compared (duplicate member names, lone surrogates).",
         T, "DESIGN.md section 6 C06"),
 "C07": ("law monitor: MergeMergePatches result vs reference composition, and merge(merge(D,P1),P2) = merge(D,combined) applied by the reference and by the library on several documents",
         "Exploration. Compatible pairs over a small shared key space (so they collide) plus all universe pairs; the combined patch must equal the reference composition and the sequential/combined applications must agree on an empty document, a document holding every mentioned key and random documents.",
         T, "DESIGN.md section 6 C07"),
 "C08": ("differential + hook monitor: error classes (errors.Is/As) vs the reference's first failing operation and cause; H1 operation-loop events show nothing executes after the first failure",
         "Exploration. Sequences with inapplicable operations planted at any position; the library must return (nil, err) with ErrTestFailed iff failed test, *AccumulatedCopySizeError iff copy limit, ErrMissing for absent members / unreachable parents; the OpDone hook must report exactly first-failure+1 operations; Apply(P) must equal Apply(P[:k+1]). Floor: 17 (operation, cause) cells each hit >= 20 times.",
         T, "DESIGN.md section 6 C08"),
 "C09": ("history monitor: inputs in mprotect'ed pages with guard pages (writes fault), Patch snapshots, every call of a history compared with the same call run alone in a fresh process, retained outputs re-checked; pool sanitizer off/poison/fresh",
         "Exploration. ~140 calls per pool over all entry points sharing 6 decoded Patches and ~60 write-protected input buffers; all ordered pairs of (API, class) cells and random histories of 50-500 calls (some under GOGC=1); results must equal the alone-in-a-fresh-process results, retained outputs must not change, arguments must not be written (fault) or restructured (snapshot); three shared *ApplyOptions values are compared field by field (unexported ones included) after every call; every root kind on either side of the two-argument entry points; hand-written patches that fail part-way; the poison mode rotates through 16 rejected texts that stop the scanner in different states.",
         "Trusted: a call run alone in a fresh process defines its result; mprotect/SetPanicOnFault. Histories longer than 500 calls and other call pools are not covered.", "DESIGN.md section 6 C09"),
 "C10": ("Go race detector over a barrier-released concurrent workload + result-vs-alone comparison + pool ownership sanitizer + schedule perturbation (yield hooks, GOMAXPROCS, GOGC=1, cold-start stampedes)",
         "Exploration. The same rounds run in a -race build (reports parsed from the log; any report with a library frame is a violation; a canary race proves the detector reports) and a plain build (more rounds): 2-64 goroutines, shared Patch and shared write-protected inputs, all entry points, results compared with alone-in-a-fresh-process results, shared *ApplyOptions values used by many goroutines at once, pool ownership checked, run-time generated struct types through the codec, fresh-process stampedes.",
         "Trusted: the Go race runtime (reports only races between accesses that executed), sampled schedules. Evidence lists goroutines, GOMAXPROCS values, pooled states in flight and distinct interleaving signatures.", "DESIGN.md section 6 C10"),
 "C11": ("differential runtime monitor: real DecodePatch vs reference acceptor, exhaustive over member mutations of canonical operations; accessor results vs decoded members",
         "Exploration. Exhaustive: 6 operations x each member x 19 mutations + odd element kinds, alone and planted at 9 positions (thorough: all pairs of mutants), root kinds; seeded valid and byte-mutated patches. Accept/reject must match the rule in the property; accepted patches: Kind/Path/From/ValueInterface must return the decoded members.",
         T, "DESIGN.md section 6 C11"),
 "C12": ("hook monitor: CopyAccounted(size,total) events compared with reference sizes at every copy (decides all limits at once) + limit placed at every prefix total -1/+0/+1; legacy package at the call boundary",
         "Exploration. Copy-heavy sequences on encoder-spelled documents (sizes from the reference spelling) and on documents in arbitrary spelling with whitespace (sizes measured on the library own output: the patch is applied up to each copy and the text found at the destination is measured); v5 per-call limit, package default, per-call limit against a different package default (0 included), one options value reused for four calls in a row, root replacement before the copies, legacy package default; error must be *AccumulatedCopySizeError exactly when the total exceeds a positive limit; limit 0 disables; other operations never produce accounting events.",
         T, "DESIGN.md section 6 C12"),
 "C13": ("metamorphic monitor: Apply(option on, P) vs Apply(option off, P minus the removes the reference says address absent targets), plus the reference itself",
         "Exploration. Exhaustive single operations and seeded remove-heavy sequences; document bytes or error class must match between the two runs of the library, and the reference; the failing operation must be the same one (OpDone hook); one options value set once and reused for a history of judged and unjudged failing calls; empty reference tokens (\"/a/\" names the member called \"\") are inside the domain.",
         T, "DESIGN.md section 6 C13"),
 "C14": ("reference + independent postcondition monitor: ensure-then-add reference, resolver finds the added value, frame check over every pre-existing pointer, created containers hold only path and padding, plain adds unchanged",
         "Exploration. Exhaustive: all paths of <=3 (thorough 4) tokens over 9 tokens on 8 documents x 2 values; seeded random paths with existing prefixes followed by further operations; arrays shrunk by remove/move and then padded by an ensure-path add; an add that reports success must have put the value at the path also where the reference defines no result (member-name token on an array); passing tests before the add; zero-padded and signed digit strings are member names where a container is created.",
         T, "DESIGN.md section 6 C14"),
 "C15": ("byte-level output monitor: independent RFC 8259 recogniser + encoding/json on every output, raw-HTML-byte scan, EscapeRaw(off)==on identity, reference re-indentation, passing-test invariance",
         "Exploration. Hostile strings and member names (<,>,&,U+2028/9, quotes, backslashes, controls, non-BMP, lone surrogates) in touched/untouched/copied/moved/tested positions and beneath containers created by EnsurePathExistsOnAdd; passing-test invariance also on documents with insignificant whitespace; results nested deeper than the decoder reads (known finding F03); all five producing entry points.",
         T + " Byte-identity clauses only on encoder-spelled inputs (stated domain).", "DESIGN.md section 6 C15"),
 "C16": ("language-equality monitor: embedded codec acceptors vs independent recogniser (encoding/json as second opinion) exhaustively over short byte/token strings; entry-point gates per []byte parameter",
         "Exploration. Exhaustive: all byte strings <=4 (thorough 5) over 20 symbols, all <=3 (thorough 4) token sequences over 42 tokens, nesting 9999/10000/10001; seeded generated and mutated texts; 11 entry-point gates on the token set, generated texts and patches respelled with random escapes; runs of invalid UTF-8 inside strings.",
         T + " Ill-formed UTF-8 compared with encoding/json only.", "DESIGN.md section 6 C16"),
 "C17": ("differential monitor: embedded codec vs this toolchain's encoding/json and an independent parser, on texts, Go values and run-time generated struct types, in one long history per worker under the pool sanitizer",
         "Exploration. Round trip through each of the four decoding entry points and both escape settings, and key lists, vs the ordered parser; every decimal exponent -35..35 of float32/float64 in plain, pointer, interface, map, struct and quoted (,string) positions; Compact/Indent/HTMLEscape bytes; Marshal/MarshalIndent/MarshalEscaped/Encoder bytes; Unmarshal/Decoder into reflect.StructOf types with tags; Decoder streams (Decode/Token/More/Buffered/InputOffset); the fork-only RedirectMarshaler/TrustMarshaler in every position; names needing Unicode simple folding; Number accessors and misuse errors; Token/Decode walks over containers with elements that do not fit; byte slices kept from an earlier decode of the same variable; key lists also for an any target; values, bytes, error presence and SyntaxError offsets must agree.",
         "Trusted: go1.23 encoding/json as ground truth; normalised: U+0008/U+000C spelling and the Number type.", "DESIGN.md section 6 C17"),
 "C18": ("differential runtime monitor: legacy package (staged from /repo root at check time) vs the reference evaluator in the v4 dialect",
         "Exploration. Exhaustive single operations and seeded sequences; all-applicable sequences must give the RFC result up to member order; failed test / remove-move of absent location / index out of range must give an error and no document.",
         T, "DESIGN.md section 6 C18"),
 "C19": ("law and differential monitors of C02/C03/C07/C06 run against the legacy package inside its stated domains",
         "Exploration. MergePatch vs RFC 7396 (object/array patches), CreateMergePatch minimality and round trip (float64-printable numbers), MergeMergePatches composition law, Equal vs structural equality (no escapes).",
         T, "DESIGN.md section 6 C19"),
 "C20": ("whole-program monitor: the built json-patch binaries run as child processes, (exit status, stdout, stderr) compared with folding DecodePatch+Apply in-process; strace fault injection for unreadable files",
         "Exploration. v5 and legacy binaries, 0-4 patch files of 7 kinds in generated, shuffled and repeated orders (valid patches generated against the evolving state so order matters), 1 MiB documents, patch files without operations combined with ill-formed / non-compact / scalar / empty stdin, percent signs in names and strings, files whose outcome depends on the document being re-read between files, EIO injected on the first read of a patch file.",
         "Trusted: the library in the harness process and in the binary are built from the same tree; strace -e inject.", "DESIGN.md section 6 C20"),
}

# additions of the later validation rounds (DESIGN.md section 6a), appended to the level texts
EXTRA = {
 "C01": " Later additions: containers of 9-300 members and strings up to 9000 bytes in every profile; operations of every kind on members 3-8000 levels down; index tokens beyond the int range (2^32 .. 2^65) as plain out-of-range indices. Sequences over member names that differ only by case folding, normalisation, width or a trailing character, with near-miss pointers to absent members named like a present one but for the letter case or a trailing blank.",
 "C02": " Later additions: wide objects (9-300 members); documents and patches whose interesting part lies 3-8000 levels down; legal whitespace around either text. Member names that differ only by case folding, normalisation, width or a trailing character; member names spelled with escapes around paired and unpaired surrogates, several side by side.",
 "C03": " Later additions: differences (removal, change, addition next to unchanged siblings) 3-8000 levels down; wide objects. Member names that differ only by case folding, normalisation, width or a trailing character.",
 "C04": " Later additions: chained-nesting-growth - nine chains of moves that grow the nesting to 12000..700000 levels, each run in a child process with Go's default stack limit (known finding F04: the two longest end in a fatal stack overflow); exactly 10001 levels assembled and then copied; wide objects.",
 "C05": " Later additions: wide objects; copies of kilobyte-sized encoder-spelled values followed by edits inside source or copy; operations deep down.",
 "C06": " Later additions: texts whose difference lies 3-8000 levels down; exponents differing in trailing zeros; strings with a backslash before a quote; scalar roots padded with whitespace. The same member under two names that differ only by case folding, normalisation, width or a trailing character.",
 "C07": " Later additions: patches sharing a path of 3-8000 levels (quick: up to 5001); wide objects. A key space of names that differ only by case folding, normalisation, width or a trailing character.",
 "C08": " Later additions: one options value reused across calls that fail after copying; values holding 10000-20001 brackets inside strings and names, copied and compared.",
 "C09": " Later additions: pool calls that fail inside the encoder (null and scalar roots), patches that add a value with < > & and copy it under both escape settings, 70 KB results; the last twelve results of every entry point are retained and re-checked after every later call. Every third input buffer has spare capacity inside the protected pages (an append to an argument faults); the bytes behind it are compared at the end.",
 "C10": " Later additions: the same pool additions as C09 run concurrently.",
 "C11": " Later additions: the library's copy of the input is overwritten as soon as DecodePatch returns; valid patches ending exactly at 255..65537 bytes followed by junk; the classic ill-formed JSON texts planted in patches.",
 "C12": " Later additions: one decoded Patch under EscapeHTML on and off in turn; copies to the empty pointer (only asked to be counted).",
 "C13": " Later additions: index tokens beyond the int range (exhaustive family: 11 tokens x 3 documents x 3 positions x 2 settings x with/without a following operation).",
 "C14": " Later additions: empty tokens, member names made of non-ASCII digits, zero-padded names; an ancestor overwritten between two ensuring adds (8 operations x 4 paths x 2 documents).",
 "C15": " Later additions: indentation of documents nested 3-2500 levels; documents with colliding or duplicate member names (form of the result only); the search for introduced escapes skips escaped backslashes.",
 "C16": " Later additions: array-form CreateMergePatch gates, array and scalar partners for the MergePatch/MergeMergePatches gates (16 gates).",
 "C17": " Later additions: Compact/Indent/HTMLEscape of texts nested 3-2500 levels; values nested more than 1000 pointer/slice/map levels that point into themselves without a cycle; token-and-decode walks; targets decoded into again. Unpaired surrogate escapes followed directly by another escape or by a complete pair.",
 "C18": " Later additions: the same decoded Patch applied a second time in half of the calls; index tokens beyond the int range; operations deep down; retained results. Sequences over member names that differ only by case folding, normalisation or width, with near-miss pointers to absent members named like a present one but for the letter case or a trailing blank.",
 "C19": " Later additions: strings and names needing escapes through the legacy merge functions; the four functions on documents whose interesting part lies 3-8000 levels down. Member names that differ only by case folding, normalisation or width, through MergePatch, MergeMergePatches and CreateMergePatch.",
 "C20": " Later additions: 255-513 -p options with the bad file at position 255/256/512; stdin arriving in two to four writes with pauses; patch files followed by stray brackets; same-named files in different directories. Patch files that begin with a byte order mark, NUL, non-JSON white space, a comment line or an XSSI guard.",
}

NOT_YET = {}

def main():
    props = [json.loads(l) for l in open(os.path.join(HERE, "properties.jsonl"))]
    ids = [p["id"] for p in props]
    hooks = subprocess.run(["git", "-C", "/repo", "log", "--format=%H %s"], capture_output=True, text=True).stdout.splitlines()
    hook_commits = [l.split()[0] for l in hooks if " verif hooks:" in l]
    checks = []
    for pid in ids:
        if pid not in CHECKS:
            continue
        tech, text, note, ref = CHECKS[pid]
        checks.append({
            "property_id": pid,
            "quick_cmd": "./check.sh %s quick" % pid,
            "thorough_cmd": "./check.sh %s thorough" % pid,
            "evidence_file": "evidence/%s.json" % pid,
            "replay_cmd_template": "./check.sh replay {path}",
            "engine": "jpverif",
            "level_claimed": {"category": "exploration", "text": text + EXTRA.get(pid, ""), "design_ref": ref},
            "level_note": note,
            "technique": tech,
        })
    na = [{"property_id": pid, "reason": NOT_YET.get(pid, "check not built yet in this round (runtime-monitoring design exists in DESIGN.md section 6)")}
          for pid in ids if pid not in CHECKS]
    m = {
        "version": 1,
        "setup_cmd": "./setup.sh",
        "hooks": {
            "guard": "verif",
            "enable": "go build -tags verif (check.sh builds the harness against /repo/v5 through a replace directive with -tags verif)",
            "baseline_off_cmd": "cd /repo/v5 && GOFLAGS=-mod=mod GOPROXY=off GOSUMDB=off go test -vet=off -count=1 -timeout 25m ./...",
            "source_commits": hook_commits,
            "add_only": True,
        },
        "engines": [{
            "name": "jpverif",
            "path": "harness/",
            "serves_properties": [c["property_id"] for c in checks],
            "kind_free_text": "Go harness: seeded workload generators, independent reference models (jsonref, ref6902, ref7396, refenc) used as online oracles at the call boundary, pool sanitizer hooks (poison/fresh), write-protected inputs, hook event monitors, Go race detector; driver + 16 isolated worker processes with a crash journal",
        }],
        "checks": checks,
        "notes": "All checks: ./check.sh <id> <quick|thorough>; VERIF_SEED selects the seeded case lists. Exit 0 held / 1 VIOLATION / 2 INCONCLUSIVE. Known findings: known_findings.jsonl.",
        "not_applicable": na,
    }
    json.dump(m, open(os.path.join(HERE, "MANIFEST.json"), "w"), indent=1)
    print("MANIFEST.json: %d checks, %d not_applicable" % (len(checks), len(na)))

if __name__ == "__main__":
    main()
