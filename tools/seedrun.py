#!/usr/bin/env python3
"""tools/seedrun.py [--confirm] [--also C12,C01] [--tier quick] <seeded-id>... | all

Runs the registered checks against seeded changes (seeded/<id>/patch.diff), each applied to a fresh
scratch worktree of /repo by tools/trymutant.sh (never to /repo itself), and records the outcome in
seeded/<id>/meta.json (checks_run / caught_by / missed_by) and in seeded/RESULTS.md.
By default the check of the property the change was written against is run, plus the checks listed
in meta.json "also_check".  --confirm first re-confirms the change with tools/seedconfirm.sh.
"""
import json, os, re, subprocess, sys, glob

ROOT = os.path.dirname(os.path.dirname(os.path.abspath(__file__)))
SEEDED = os.path.join(ROOT, "seeded")

def run(id_, also, tier, confirm):
    d = os.path.join(SEEDED, id_)
    meta = json.load(open(os.path.join(d, "meta.json")))
    if confirm:
        r = subprocess.run([os.path.join(ROOT, "tools/seedconfirm.sh"), d], capture_output=True, text=True, errors="replace")
        meta["confirmed"] = r.returncode == 0
        print(r.stdout.strip().splitlines()[-1])
    props = [meta["property"]] + [p for p in meta.get("also_check", []) if p != meta["property"]] + [p for p in also if p != meta["property"]]
    seen = set(); props = [p for p in props if not (p in seen or seen.add(p))]
    env = dict(os.environ, MUT_TIER=tier, MUT_SHOW="40")
    if meta.get("base_commit"):
        env["MUT_BASE"] = meta["base_commit"]
    out = subprocess.run([os.path.join(ROOT, "tools/trymutant.sh"), os.path.join(d, "patch.diff")] + props, capture_output=True, text=True, errors="replace", env=env).stdout
    base_sigs = None
    if meta.get("base_commit"):
        # the base commit predates later repairs: what the checks report on the base tree itself does not count
        bout = subprocess.run([os.path.join(ROOT, "tools/trymutant.sh"), os.path.join(d, "patch.diff")] + props, capture_output=True, text=True, errors="replace", env=dict(env, MUT_NOPATCH="1")).stdout
        base_sigs = {}
        cur = None
        for line in bout.splitlines():
            m = re.match(r"CHECK (C\d+) rc=", line)
            if m:
                cur = m.group(1); base_sigs[cur] = set(); continue
            m = re.match(r"\s+signature: (.*?)\s+\(x", line)
            if m and cur:
                base_sigs[cur].add(m.group(1))
    suite = "pass" if "MUTANT: suite PASS" in out else "FAIL"
    seed = int(os.environ.get("VERIF_SEED", "1"))
    results = {r["check"] + "/" + r["tier"] + "/" + str(r.get("seed", 1)): r for r in meta.get("checks_run", [])}
    cur = None
    for line in out.splitlines():
        m = re.match(r"CHECK (C\d+) rc=(\d+) (\d+)s: (\d+) violation", line)
        if m:
            cur = {"check": m.group(1), "tier": tier, "seed": int(os.environ.get("VERIF_SEED", "1")), "exit": int(m.group(2)), "wall_s": int(m.group(3)),
                   "violation_lines": int(m.group(4)), "signatures": []}
            results[cur["check"] + "/" + tier + "/" + str(seed)] = cur
            continue
        m = re.match(r"\s+signature: (.*?)\s+\(x(\d+), first at ([^,]+),", line)
        if m and cur is not None and len(cur["signatures"]) < 6:
            cur["signatures"].append({"sig": m.group(1), "count": int(m.group(2)), "first_at": m.group(3)})
        if line.startswith("INCONCLUSIVE") and cur is not None:
            cur.setdefault("inconclusive", []).append(line[:300])
    if base_sigs is not None:
        for r in results.values():
            if r["tier"] == tier and r.get("seed", 1) == seed and r["check"] in base_sigs and r["check"] in props:
                known = base_sigs[r["check"]]
                r["signatures_also_on_base_tree"] = sorted(known)
                r["signatures"] = [x for x in r["signatures"] if x["sig"] not in known]
                if r["exit"] == 1 and not r["signatures"]:
                    r["exit"] = 0
                    r["note"] = "every signature is also reported on the base tree without the change"
    meta["pinned_suite_with_change"] = suite
    meta["checks_run"] = sorted(results.values(), key=lambda r: (r["check"], r["tier"], r.get("seed", 1)))
    mine = [r for r in meta["checks_run"] if r.get("seed", 1) == seed]
    suffix = "" if seed == 1 else "_seed%d" % seed
    meta["caught_by" + suffix] = sorted({r["check"] for r in mine if r["exit"] == 1})
    meta["missed_by" + suffix] = sorted({r["check"] for r in mine if r["exit"] != 1} - set(meta["caught_by" + suffix]))
    json.dump(meta, open(os.path.join(d, "meta.json"), "w"), indent=1)
    print("%s suite=%s  %s" % (id_, suite, "  ".join("%s:%s" % (r["check"], "CAUGHT" if r["exit"] == 1 else ("inconclusive" if r["exit"] == 2 else "missed")) for r in meta["checks_run"] if r["tier"] == tier and r.get("seed", 1) == seed)), flush=True)

def results_md():
    rows = []
    for d in sorted(glob.glob(os.path.join(SEEDED, "*", "meta.json"))):
        m = json.load(open(d))
        own = [r for r in m.get("checks_run", []) if r["check"] == m["property"]]
        first = ""
        for r in m.get("checks_run", []):
            if r["exit"] == 1 and r["signatures"]:
                first = "%s: %s (x%d)" % (r["check"], r["signatures"][0]["sig"], r["signatures"][0]["count"]); break
        rows.append("| %s | %s | %s | %s | %s | %s |" % (m["id"], m["property"], m.get("summary", "").replace("|", "/"), ", ".join(m.get("caught_by", [])) or "-", ", ".join(m.get("missed_by", [])) or "-", first.replace("|", "/")))
    with open(os.path.join(SEEDED, "RESULTS.md"), "w") as f:
        f.write("# Seeded changes and the checks that catch them\n\nGenerated by tools/seedrun.py from seeded/*/meta.json (quick tier unless noted there).\n\n")
        f.write("| id | written against | change | caught by | not caught by (of the checks run) | first signature |\n|---|---|---|---|---|---|\n")
        f.write("\n".join(rows) + "\n")

def main():
    args = sys.argv[1:]; confirm = False; also = []; tier = "quick"
    while args and args[0].startswith("--"):
        a = args.pop(0)
        if a == "--confirm": confirm = True
        elif a == "--also": also = args.pop(0).split(",")
        elif a == "--tier": tier = args.pop(0)
    ids = args
    if ids == ["all"]:
        ids = sorted(os.path.basename(os.path.dirname(p)) for p in glob.glob(os.path.join(SEEDED, "*", "meta.json")))
    for i in ids:
        run(i, also, tier, confirm)
    results_md()

if __name__ == "__main__":
    main()
