#!/bin/bash
# tools/sweep.sh <tier> <seed>... : every check at each seed; evidence and replays of these runs go to a
# scratch directory (only a plain ./check.sh run writes /verif/evidence). One line per check.
cd "$(dirname "$0")/.."
TIER="$1"; shift
OUT=$(mktemp -d /var/tmp/sweep.XXXXXX)
for seed in "$@"; do
  for i in $(seq -w 1 20); do
    p="C$i"; s=$(date +%s)
    out=$(VERIF_SEED=$seed VERIF_EVIDENCE_DIR="$OUT" VERIF_REPLAY_DIR="$OUT/replays" ./check.sh $p $TIER 2>&1); rc=$?
    echo "seed=$seed $p rc=$rc $(( $(date +%s) - s ))s $(echo "$out" | tail -1 | cut -c1-120)"
    echo "$out" | grep -E "^(VIOLATION|  signature|INCONCLUSIVE)" | cut -c1-300
  done
done
echo "replays (if any) in $OUT/replays"
