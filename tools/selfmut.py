#!/usr/bin/env python3
"""tools/selfmut.py [list | gen <dir> | run <name>...|all]

Sensitivity probes written by the author of the checks (DESIGN.md section 8): each
entry is a small, realistic edit of /repo (textual replacement of one unique
snippet) together with the properties whose quick check is expected to alarm.
`gen` writes one .diff per entry (made in a scratch worktree of /repo, removed
afterwards); `run` hands each diff to tools/trymutant.sh, which applies it to a
fresh scratch worktree, runs the pinned suite and the named checks, and removes
the worktree. Nothing here ever touches /repo's working tree.

These are complementary to /verif/seeded/ (changes written by independent
sub-agents that never saw /verif).
"""
import os, subprocess, sys, tempfile, shutil, json

V5 = "v5/patch.go"; MG = "v5/merge.go"; DEC = "v5/internal/json/decode.go"; ENC = "v5/internal/json/encode.go"
LP = "patch.go"; LM = "merge.go"; CLI = "v5/cmd/json-patch/main.go"

# (name, file, old, new, [properties expected to alarm], note)
M = [
 ("copy-aliases-source", V5, "\tvalCopy, sz, err := deepCopy(val, options)\n\tif err != nil {\n\t\treturn fmt.Errorf(\"error while performing deep copy: %w\", err)\n\t}\n",
  "\tvalCopy, sz, err := deepCopy(val, options)\n\tif err != nil {\n\t\treturn fmt.Errorf(\"error while performing deep copy: %w\", err)\n\t}\n\tif from != \"\" && val != nil {\n\t\tvalCopy = val\n\t}\n",
  ["C01"], "copy stores the source node itself: later edits beneath one side show on the other"),
 ("get-index-bound", V5, "\tif idx >= len(d.nodes) {\n\t\treturn nil, fmt.Errorf(\"Unable to access invalid index: %d: %w\", idx, ErrInvalidIndex)\n\t}\n\n\treturn d.nodes[idx], nil",
  "\tif idx > len(d.nodes) {\n\t\treturn nil, fmt.Errorf(\"Unable to access invalid index: %d: %w\", idx, ErrInvalidIndex)\n\t}\n\n\treturn d.nodes[idx], nil",
  ["C04", "C01"], "off-by-one bound in partialArray.get: index == len panics"),
 ("remove-neg-bound", V5, "\t\tif idx < -len(cur.nodes) {\n\t\t\tif options.AllowMissingPathOnRemove {", "\t\tif idx <= -len(cur.nodes) {\n\t\t\tif options.AllowMissingPathOnRemove {",
  ["C01", "C13"], "remove of index -len is rejected"),
 ("pointer-unescape-order", V5, "\treturn rfc6901Decoder.Replace(k)", "\treturn strings.ReplaceAll(strings.ReplaceAll(k, \"~0\", \"~\"), \"~1\", \"/\")",
  ["C01"], "~0 decoded before ~1: the token ~01 becomes / instead of ~1"),
 ("remove-error-not-wrapped", V5, "\t\treturn fmt.Errorf(\"unable to remove nonexistent key: %s: %w\", key, ErrMissing)", "\t\treturn fmt.Errorf(\"unable to remove nonexistent key: %s: %v\", key, ErrMissing)",
  ["C08"], "ErrMissing lost for remove of an absent member"),
 ("replace-value-not-validated", V5, "\tcase \"add\", \"replace\":\n\t\tif _, err := op.ValueInterface(); err != nil {", "\tcase \"add\":\n\t\tif _, err := op.ValueInterface(); err != nil {",
  ["C11", "C04"], "DecodePatch accepts replace without value"),
 ("allowmissing-forgives-replace", V5, "\tif con == nil {\n\t\treturn fmt.Errorf(\"replace operation does not apply: doc is missing path: %s: %w\", path, ErrMissing)",
  "\tif con == nil {\n\t\tif options.AllowMissingPathOnRemove {\n\t\t\treturn nil\n\t\t}\n\t\treturn fmt.Errorf(\"replace operation does not apply: doc is missing path: %s: %w\", path, ErrMissing)",
  ["C13"], "AllowMissingPathOnRemove also forgives replace below an absent parent"),
 ("ensure-padding-off-by-one", V5, "\t\t\t\t\tfor i := len(pa.nodes); i <= arrIndex-1; i++ {", "\t\t\t\t\tfor i := len(pa.nodes); i < arrIndex-1; i++ {",
  ["C14"], "existing array padded one short"),
 ("copy-limit-ge", V5, "*accumulatedCopySize > options.AccumulatedCopySizeLimit {", "*accumulatedCopySize >= options.AccumulatedCopySizeLimit {",
  ["C12"], "limit reached exactly is treated as exceeded"),
 ("copy-size-always-escaped", V5, "\tsz := len(a)\n\treturn newLazyNode(newRawMessage(a)), sz, nil",
  "\tsz := len(a)\n\tif !options.EscapeHTML {\n\t\tif b, err := json.Marshal(src); err == nil {\n\t\t\tsz = len(b)\n\t\t}\n\t}\n\treturn newLazyNode(newRawMessage(a)), sz, nil",
  ["C12"], "copy size measured with HTML escaping although EscapeHTML is off"),
 ("intodoc-opts-dropped", V5, "\tn.doc.opts = options\n\tif err != nil {\n\t\treturn nil, err\n\t}\n\n\tn.which = eDoc", "\tif err != nil {\n\t\treturn nil, err\n\t}\n\n\tn.which = eDoc",
  ["C15"], "nested objects visited by an operation lose the EscapeHTML option"),
 ("equal-second-arg-not-validated", V5, "\tif !json.Valid(a) || !json.Valid(b) {\n\t\treturn false\n\t}\n\n\tla :=", "\tif !json.Valid(a) {\n\t\treturn false\n\t}\n\n\tla :=",
  ["C06", "C04", "C16"], "Equal validates only its first argument"),
 ("isarray-cr", V5, "\t\tcase '\\r':\n", "", ["C16"], "array document preceded by CR is taken for an object"),
 ("test-absent-vs-null", V5, "\tif val.isNull() {\n\t\tif ov.isNull() {\n\t\t\treturn nil\n\t\t}", "\tif val.isNull() {\n\t\tif ov.isNull() && err == nil {\n\t\t\treturn nil\n\t\t}",
  ["C01"], "test of an absent member against null fails (dialect: compares as null)"),
 ("add-neg-arith", V5, "\t\tidx += len(ary)\n\t}\n\n\tcopy(ary[0:idx], cur.nodes[0:idx])", "\t\tidx += len(cur.nodes)\n\t}\n\n\tcopy(ary[0:idx], cur.nodes[0:idx])",
  ["C01"], "negative add index counts from len instead of len+1"),
 ("merge-new-member-not-pruned", MG, "\t\t\t\tif !mergeMerge {\n\t\t\t\t\tpruneNulls(v, options)\n\t\t\t\t}\n", "", ["C02"], "nulls inside newly stored objects are kept"),
 ("mergemerge-prunes", MG, "\t\t\t\tif !mergeMerge {\n\t\t\t\t\tpruneNulls(v, options)\n\t\t\t\t}\n", "\t\t\t\tpruneNulls(v, options)\n", ["C07"], "MergeMergePatches drops deletions inside new members"),
 ("merge-patch-not-validated", MG, "\tif !json.Valid(patchData) {\n\t\treturn nil, ErrBadJSONPatch\n\t}\n\n\toptions", "\toptions", ["C04", "C16"], "MergePatch no longer validates the patch"),
 ("diff-number-by-float", MG, "\tcase json.Number:\n\t\tbt := bv.(json.Number)\n\t\tif bt == at {\n\t\t\treturn true\n\t\t}", "\tcase json.Number:\n\t\tbt := bv.(json.Number)\n\t\tbf, _ := bt.Float64()\n\t\taf, _ := at.Float64()\n\t\tif bf == af {\n\t\t\treturn true\n\t\t}",
  ["C03"], "CreateMergePatch compares numbers as float64: 1 vs 1.0 and big integers are 'equal'"),
 ("diff-array-len-only", MG, "\tfor i := range a {\n\t\tif !matchesValue(a[i], b[i]) {\n\t\t\treturn false\n\t\t}\n\t}\n\treturn true", "\tfor i := range a[:len(a)/2] {\n\t\tif !matchesValue(a[i], b[i]) {\n\t\t\treturn false\n\t\t}\n\t}\n\treturn true",
  ["C03"], "arrays compared on their first half only"),
 ("diff-empty-nested-emitted", MG, "\t\t\tif len(dst) > 0 {\n\t\t\t\tinto[key] = dst\n\t\t\t}", "\t\t\tinto[key] = dst", ["C03"], "unchanged nested objects appear as {} in the patch"),
 ("create-array-length-unchecked", MG, "\tif len(modifiedDocs) != total {\n\t\treturn nil, ErrBadJSONDoc\n\t}", "\tif len(modifiedDocs) < total {\n\t\treturn nil, ErrBadJSONDoc\n\t}", ["C03"], "longer modified array accepted"),
 ("merge-survivor-reappended", MG, "\t\t\t} else {\n\t\t\t\t_ = doc.set(k, merge(cur, v, mergeMerge, options), options)\n\t\t\t}", "\t\t\t} else {\n\t\t\t\tm := merge(cur, v, mergeMerge, options)\n\t\t\t\tif m != cur {\n\t\t\t\t\t_ = doc.remove(k, options)\n\t\t\t\t}\n\t\t\t\t_ = doc.set(k, m, options)\n\t\t\t}",
  ["C05"], "a replaced member moves to the end of the object"),
 ("unmarshalvalid-no-usenumber", DEC, "func UnmarshalValid(data []byte, v any) error {\n\t// Check for well-formedness.\n\t// Avoids filling out half a data structure\n\t// before discovering a JSON syntax error.\n\td := ds.Get().(*decodeState)\n\tverifAcquireDec(d)\n\tdefer ds.Put(d)\n\tdefer verifReleaseDec(d)\n\t//var d decodeState\n\td.useNumber = true\n",
  "func UnmarshalValid(data []byte, v any) error {\n\t// Check for well-formedness.\n\t// Avoids filling out half a data structure\n\t// before discovering a JSON syntax error.\n\td := ds.Get().(*decodeState)\n\tverifAcquireDec(d)\n\tdefer ds.Put(d)\n\tdefer verifReleaseDec(d)\n\t//var d decodeState\n",
  ["C03", "C17"], "UnmarshalValid relies on a previous user having set useNumber (sticky pooled state)"),
 ("marshalescaped-aliases-pool", ENC, "\tbuf := append([]byte(nil), e.Bytes()...)\n\n\treturn buf, nil\n}\n\n// MarshalIndent", "\tbuf := e.Bytes()\n\n\treturn buf, nil\n}\n\n// MarshalIndent",
  ["C09", "C10", "C01"], "MarshalEscaped returns the pooled buffer"),
 ("cli-reverse-order", CLI, "\t\tpatches[i] = patch\n", "\t\tpatches[len(patches)-1-i] = patch\n", ["C20"], "patch files applied in reverse order"),
 ("cli-applies-to-original", CLI, "\t\tmdoc, err = patch.Apply(mdoc)\n", "\t\tmdoc, err = patch.Apply(doc)\n", ["C20"], "every patch applied to the original input"),
]

def gen(outdir):
    os.makedirs(outdir, exist_ok=True)
    wt = tempfile.mkdtemp(prefix="selfmutwt.", dir="/var/tmp"); os.rmdir(wt)
    subprocess.check_call(["git", "-C", "/repo", "worktree", "add", "--detach", "-q", wt, "HEAD"])
    try:
        for name, f, old, new, props, note in M:
            p = os.path.join(wt, f)
            s = open(p).read()
            if old is None:
                continue
            if s.count(old) != 1:
                print("SKIP %s: snippet occurs %d times" % (name, s.count(old))); continue
            open(p, "w").write(s.replace(old, new))
            d = subprocess.check_output(["git", "-C", wt, "diff"]).decode()
            open(os.path.join(outdir, name + ".diff"), "w").write(d)
            subprocess.check_call(["git", "-C", wt, "checkout", "-q", "--", "."])
            print("ok", name, props)
    finally:
        subprocess.call(["git", "-C", "/repo", "worktree", "remove", "--force", wt])
        shutil.rmtree(wt, ignore_errors=True)

def main():
    if len(sys.argv) < 2 or sys.argv[1] == "list":
        for name, f, old, new, props, note in M: print(name, f, props, "-", note)
        return
    if sys.argv[1] == "gen":
        gen(sys.argv[2]); return
    if sys.argv[1] == "run":
        d = tempfile.mkdtemp(prefix="selfmut.", dir="/var/tmp")
        try:
            gen(d)
            names = sys.argv[2:]
            for name, f, old, new, props, note in M:
                if names != ["all"] and name not in names: continue
                df = os.path.join(d, name + ".diff")
                if not os.path.exists(df): continue
                print("=== %s (%s) expected: %s" % (name, note, ",".join(props)), flush=True)
                subprocess.call([os.path.join(os.path.dirname(__file__), "trymutant.sh"), df] + props)
        finally:
            shutil.rmtree(d, ignore_errors=True)

if __name__ == "__main__":
    main()
