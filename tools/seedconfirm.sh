#!/bin/bash
# tools/seedconfirm.sh <seeded-dir>
# Confirms a seeded change independently, in a scratch worktree of /repo (removed afterwards):
#   (a) the change applies, compiles, and the pinned suite (cd v5 && go test ./...) still passes
#       (for changes of the legacy root package its own tests are run too, in a staged module);
#   (b) the demonstration FAILS with the change;  (c) the demonstration PASSES without it.
# <seeded-dir> holds patch.diff, demo_test.go.txt and meta.json (demo.dest = package directory the
# demonstration is copied into, "." = the legacy root package; demo.run_pattern; demo.race).
set -u
SRC="$(realpath "$1")"
export GOFLAGS=-mod=mod GOPROXY=off GOSUMDB=off GOTOOLCHAIN=local
DEST=$(jq -r .demo.dest "$SRC/meta.json"); PAT=$(jq -r .demo.run_pattern "$SRC/meta.json"); RACE=$(jq -r .demo.race "$SRC/meta.json")
RFLAG=""; [ "$RACE" = "true" ] && RFLAG="-race"
WT=$(mktemp -d /var/tmp/seedwt.XXXXXX); ST=$(mktemp -d /var/tmp/seedst.XXXXXX)
trap 'git -C /repo worktree remove --force "$WT" >/dev/null 2>&1; rm -rf "$WT" "$ST"' EXIT
BASE=$(jq -r '.base_commit // "HEAD"' "$SRC/meta.json")
rmdir "$WT"; git -C /repo worktree add --detach -q "$WT" "$BASE" || exit 3
DIFF="$SRC/patch.diff"; demo="$SRC/demo_test.go.txt"
echo "seedconfirm: $SRC demo dest=$DEST pattern=$PAT $RFLAG"

stage_root() { # the legacy package has no go.mod: stage it (with its command)
  rm -rf "$ST/l"; mkdir -p "$ST/l/cmd/json-patch"; cp "$WT"/*.go "$ST/l/"; cp "$WT"/cmd/json-patch/*.go "$ST/l/cmd/json-patch/"
  printf 'module github.com/evanphx/json-patch\n\ngo 1.18\n\nrequire github.com/jessevdk/go-flags v1.6.1\n' > "$ST/l/go.mod"; cp "$WT/v5/go.sum" "$ST/l/"
}
run_demo() {
  if [ "$DEST" = "cmd/json-patch" ]; then
    stage_root; cp "$demo" "$ST/l/cmd/json-patch/zz_seed_demo_test.go"; (cd "$ST/l" && go test -vet=off -count=1 -run "$PAT" ./cmd/json-patch/ 2>&1 | tail -15; exit ${PIPESTATUS[0]})
  elif [ "$DEST" = "." ]; then
    stage_root; cp "$demo" "$ST/l/zz_seed_demo_test.go"; (cd "$ST/l" && go test -vet=off -count=1 -run "$PAT" . 2>&1 | tail -15; exit ${PIPESTATUS[0]})
  else
    cp "$demo" "$WT/$DEST/zz_seed_demo_test.go"; (cd "$WT/$DEST" && go test -vet=off -count=1 $RFLAG -run "$PAT" . 2>&1 | tail -15; exit ${PIPESTATUS[0]}); rc=$?
    rm -f "$WT/$DEST/zz_seed_demo_test.go"; return $rc
  fi
}
ok=1
git -C "$WT" apply "$DIFF" || { echo "NOT-CONFIRMED: diff does not apply"; exit 1; }
if (cd "$WT/v5" && go build ./... && go test -vet=off -count=1 ./... > "$ST/suite.log" 2>&1); then echo "(a) pinned suite passes with the change"; else echo "(a) PINNED SUITE FAILS with the change"; tail -8 "$ST/suite.log"; ok=0; fi
if git -C "$WT" diff --name-only | grep -qv '^v5/'; then stage_root; echo "    legacy root package tests: $(cd "$ST/l" && go test -vet=off -count=1 . 2>&1 | tail -1)"; fi
if run_demo > "$ST/with.log" 2>&1; then echo "(b) demonstration PASSES with the change (not a demonstration)"; ok=0; else echo "(b) demonstration fails with the change:"; grep -E "^(---|\s+\S+_test.go|FAIL|panic|fatal|WARNING: DATA RACE)" "$ST/with.log" | head -5 | cut -c1-220; fi
git -C "$WT" apply -R "$DIFF"
if run_demo > "$ST/without.log" 2>&1; then echo "(c) demonstration passes without the change"; else echo "(c) DEMONSTRATION FAILS without the change"; tail -8 "$ST/without.log"; ok=0; fi
[ $ok = 1 ] && { echo "CONFIRMED $(basename "$SRC")"; exit 0; } || { echo "NOT-CONFIRMED $(basename "$SRC")"; exit 1; }
