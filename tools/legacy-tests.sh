#!/bin/bash
# Runs the legacy root package's own tests (not part of the pinned baseline: the
# root has no go.mod) in a scratch copy; used after every fix: commit there.
set -e
S=$(mktemp -d /var/tmp/legacytest.XXXXXX); trap 'rm -rf $S' EXIT
cp /repo/*.go $S/
cat > $S/go.mod <<'EOM'
module github.com/evanphx/json-patch

go 1.18

require github.com/jessevdk/go-flags v1.6.1
EOM
cp /repo/v5/go.sum $S/
cd $S && GOFLAGS=-mod=mod GOPROXY=off GOSUMDB=off GOTOOLCHAIN=local go test -vet=off -count=1 . 2>&1 | tail -5
