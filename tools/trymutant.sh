#!/bin/bash
# tools/trymutant.sh <patch.diff> <Cxx> [Cyy ...]
# Applies a seeded change to a scratch worktree of /repo (never to /repo itself), confirms that it
# compiles and that the pinned suite still passes, runs the named checks (quick tier) against that
# tree, and removes the worktree. Evidence and replays of these runs go to a scratch directory.
set -u
DIFF="$(realpath "$1")"; shift
TIER="${MUT_TIER:-quick}"
WT=$(mktemp -d /var/tmp/mutwt.XXXXXX); OUT=$(mktemp -d /var/tmp/mutout.XXXXXX)
trap 'git -C /repo worktree remove --force "$WT" >/dev/null 2>&1; rm -rf "$WT" "$OUT"' EXIT
rmdir "$WT"; git -C /repo worktree add --detach -q "$WT" "${MUT_BASE:-HEAD}" || exit 3
[ -n "${MUT_NOPATCH:-}" ] || git -C "$WT" apply "$DIFF" || { echo "MUTANT: patch does not apply"; exit 3; }
export GOFLAGS=-mod=mod GOPROXY=off GOSUMDB=off GOTOOLCHAIN=local
( cd "$WT/v5" && go build ./... && go test -vet=off -count=1 ./... >"$OUT/suite.log" 2>&1 ) && echo "MUTANT: suite PASS" || { echo "MUTANT: suite FAILS or does not build"; tail -5 "$OUT/suite.log"; }
for p in "$@"; do
  s=$(date +%s)
  out=$(cd /verif && VERIF_REPO="$WT" VERIF_EVIDENCE_DIR="$OUT" VERIF_REPLAY_DIR="$OUT/replays" ./check.sh "$p" "$TIER" 2>&1); rc=$?
  e=$(( $(date +%s) - s ))
  echo "CHECK $p rc=$rc ${e}s: $(echo "$out" | grep -c '^VIOLATION') violation line(s)"
  echo "$out" | grep -E "^(VIOLATION|  signature|INCONCLUSIVE)" | head -${MUT_SHOW:-6} | cut -c1-220
  if [ -n "${MUT_DETAIL:-}" ]; then f=$(ls "$OUT"/replays/*.json 2>/dev/null | head -1); [ -n "$f" ] && head -c 1500 "$f"; echo; fi
done
