#!/bin/bash
# tools/runall.sh [tier] : runs every check once, prints one line per property
cd "$(dirname "$0")/.."
TIER="${1:-quick}"
for i in $(seq -w 1 20); do
  p="C$i"
  s=$(date +%s)
  out=$(./check.sh $p $TIER 2>&1); rc=$?
  e=$(( $(date +%s) - s ))
  echo "$p rc=$rc ${e}s $(echo "$out" | tail -1)"
  echo "$out" | grep -E "^(VIOLATION|INCONCLUSIVE|KNOWN-FINDING)" | cut -c1-200
done
