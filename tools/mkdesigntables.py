#!/usr/bin/env python3
"""Regenerates the tables of DESIGN.md section 8.2 (from seeded/*/meta.json) and 8.3 (from a selfmut log given as argument)."""
import json, glob, os, re, sys
ROOT = os.path.dirname(os.path.dirname(os.path.abspath(__file__)))
def seeded():
    rows = []; n = caught = 0; missed_first = []
    for f in sorted(glob.glob(os.path.join(ROOT, "seeded", "*", "meta.json"))):
        m = json.load(open(f)); n += 1
        own = m["property"] in m.get("caught_by", [])
        caught += own
        sig = ""
        for r in m.get("checks_run", []):
            if r["check"] == m["property"] and r["exit"] == 1 and r["signatures"]:
                sig = r["signatures"][0]["sig"]
        others = [c for c in m.get("caught_by", []) if c != m["property"]]
        rows.append("| %s | %s | %s | %s | %s | %s |" % (m["id"], m.get("summary", "").replace("|", "/"), m.get("needs_to_manifest", "").replace("|", "/"),
                    ("**%s**" % m["property"]) if own else ("%s: MISSED" % m["property"]), ", ".join(others) or "–", ("`%s`" % sig.replace("|", "/")[:70]) if sig else ""))
    head = "%d changes, %d caught by the check of the property they were written against (quick tier, seed 1; `seeded/RESULTS.md` and the `meta.json` files have every run). First-run misses and what was done about them are marked in `meta.json` (`first_run`) and listed below the table.\n\n" % (n, caught)
    head += "| id | change | needs | own check | also caught by | first signature |\n|---|---|---|---|---|---|\n"
    misses = []
    for f in sorted(glob.glob(os.path.join(ROOT, "seeded", "*", "meta.json"))):
        m = json.load(open(f))
        if m.get("first_run"):
            misses.append("* **%s** — %s." % (m["id"], m["first_run"].rstrip(".")))
    tail = "\nFirst-run misses (%d of %d) and the answers — all of them more reach or more observability, none a weaker oracle:\n\n" % (len(misses), n) + "\n".join(misses) + "\n"
    return head + "\n".join(rows) + "\n" + tail
def repl(s, tag, body):
    a, b = "<!-- %s-BEGIN -->" % tag, "<!-- %s-END -->" % tag
    i, j = s.index(a) + len(a), s.index(b)
    return s[:i] + "\n" + body + s[j:]
p = os.path.join(ROOT, "DESIGN.md"); s = open(p).read()
s = repl(s, "SEEDED-TABLE", seeded())
if len(sys.argv) > 1:
    rows = []; name = note = suite = None
    for l in open(sys.argv[1]):
        m = re.match(r"=== (\S+) \((.*)\) expected: (.*)", l)
        if m: name, note = m.group(1), m.group(2); checks = []; continue
        if l.startswith("MUTANT:"): suite = "passes" if "PASS" in l else "rejects it"
        m = re.match(r"CHECK (C\d+) rc=(\d+)", l)
        if m: rows.append("| %s | %s | %s | %s: %s |" % (name, note, suite, m.group(1), {"1": "caught", "0": "MISSED", "2": "inconclusive"}.get(m.group(2), m.group(2))))
    s = repl(s, "SELFMUT-TABLE", "| probe | change | pinned suite | check |\n|---|---|---|---|\n" + "\n".join(rows) + "\n")
open(p, "w").write(s)
