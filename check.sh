#!/bin/bash
# ./check.sh <Cxx> <quick|thorough>      run one property's check (quick_cmd / thorough_cmd of MANIFEST.json)
# ./check.sh replay <replay-file>        re-execute one recorded case against the current /repo working tree
#
# Everything is rebuilt from /repo's current working tree with the verif hooks on.
# exit 0: held on everything explored; exit 1: VIOLATION line(s); exit 2: INCONCLUSIVE.
set -u
cd "$(dirname "$0")"
. ./lib.sh

PROP="${1:-}"; TIER="${2:-${VERIF_TIER:-quick}}"
SEED="${VERIF_SEED:-1}"
WORKERS="${VERIF_WORKERS:-16}"
[ -n "$PROP" ] || { echo "usage: $0 <Cxx> <quick|thorough> | replay <file>"; exit 2; }

mkwork
fail_build() { echo "INCONCLUSIVE property=$PROP reason=build ($1)"; exit 2; }
stage_legacy || fail_build stage
write_gomod || fail_build gomod
# Thorough runs (and VERIF_COVER=1) use a coverage-instrumented build of the harness: the evidence then
# lists which statements of the library the workload executed. Verdicts do not depend on it.
COVER=()
if [ "$PROP" != "replay" ] && { [ "$TIER" = "thorough" ] || [ -n "${VERIF_COVER:-}" ]; }; then
  COVER=(-cover -coverpkg=github.com/evanphx/json-patch/v5/...,github.com/evanphx/json-patch)
  export GOCOVERDIR="$WORK/cov"; mkdir -p "$GOCOVERDIR"
fi
export JPV_PROPERTIES="$VERIF_DIR/properties.jsonl"
build_harness "$WORK/bin/jpverif" "${COVER[@]}" > "$WORK/build.log" 2>&1 || { cat "$WORK/build.log"; fail_build harness; }

if [ "$PROP" = "replay" ]; then
  FILE="$2"
  RP=$(sed -n 's/.*"property": *"\(C[0-9]*\)".*/\1/p' "$FILE" | head -1)
  EXTRA=()
  if [ "$RP" = "C20" ]; then build_cli > "$WORK/build-cli.log" 2>&1 || { cat "$WORK/build-cli.log"; fail_build cli; }; fi
  export JPV_CLI5="$WORK/bin/json-patch-v5" JPV_CLILEGACY="$WORK/bin/json-patch-legacy"
  "$WORK/bin/jpverif" replay -file "$FILE" -dir "$WORK/run" -findings "$VERIF_DIR/known_findings.jsonl"
  exit $?
fi

EXTRA=()
case "$PROP" in
  C10)
    build_harness "$WORK/bin/jpverif-race" -race > "$WORK/build-race.log" 2>&1 || { cat "$WORK/build-race.log"; fail_build race; }
    EXTRA+=(-racebin "$WORK/bin/jpverif-race") ;;
  C20)
    build_cli > "$WORK/build-cli.log" 2>&1 || { cat "$WORK/build-cli.log"; fail_build cli; } ;;
esac
export JPV_CLI5="$WORK/bin/json-patch-v5" JPV_CLILEGACY="$WORK/bin/json-patch-legacy" JPV_STRACE="$(command -v strace || true)"

"$WORK/bin/jpverif" run -prop "$PROP" -tier "$TIER" -seed "$SEED" -workers "$WORKERS" -dir "$WORK/run" \
  -evidence "${VERIF_EVIDENCE_DIR:-$VERIF_DIR/evidence}/$PROP.json" -replays "${VERIF_REPLAY_DIR:-$VERIF_DIR/replays}" -findings "$VERIF_DIR/known_findings.jsonl" "${EXTRA[@]}"
rc=$?
# VERIF_COVER_OUT=<dir>: keep the merged coverage profile of this run (for looking at what a workload does not reach)
[ -n "${VERIF_COVER_OUT:-}" ] && [ -f "$WORK/run/cover.txt" ] && mkdir -p "$VERIF_COVER_OUT" && cp "$WORK/run/cover.txt" "$VERIF_COVER_OUT/$PROP.cover.txt"
exit $rc
